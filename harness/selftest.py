"""check selftest: engine validation on the repository's own test inputs (DESIGN.md 3.6).  Every ballot file under
/repo/test/blt with at most 6 candidates is pushed through the symbolic engine with its real multipliers pinned
(constraints m_r == value: exactly one feasible path) and the symbolic record, evaluated under the path's model, must equal
the record the pristine code produces for the same election (the per-path differential validation of count mode)."""
import glob
import json
import os
import sys
import concurrent.futures

from harness import driver

RULES = [('wigm', {}), ('wigm', {'arithmetic': 'fixed', 'precision': 4}), ('wigm-prf', {}), ('wigm-prf-batch', {}), ('scotland', {}), ('mpls', {}),
         ('cfer', {}), ('cfer-batch', {}), ('qpq', {}), ('meek', {'arithmetic': 'fixed', 'precision': 6, 'omega': 3}), ('warren', {'arithmetic': 'fixed', 'precision': 6, 'omega': 3}),
         ('meek-prf', {})]


def specs():
    sys.path.insert(0, os.environ.get('DROOP_REPO', '/repo'))
    from droop.profile import ElectionProfile, ElectionProfileError
    out = []
    for f in sorted(glob.glob(os.path.join(os.environ.get('DROOP_REPO', '/repo'), 'test', 'blt', '**', '*.blt'), recursive=True)):
        try:
            p = ElectionProfile(path=f)
        except Exception:
            continue
        if p.nCand > 6 or p.options or p.undeclared:
            continue
        lines, mults = [], []
        for bl in p.ballotLines:
            lines.append(' '.join(str(c) for c in bl.ranking))
            mults.append(bl.multiplier)
        eq = []
        for bl in p.ballotLinesEqual:
            eq.append(' '.join('='.join(str(c) for c in r) for r in bl.ranking))
            mults.append(bl.multiplier)
        if not lines:
            continue
        # withdrawn candidates were already stripped by the reader: renumbering is not needed, they simply get no votes
        wd = sorted(p.withdrawn)
        for rule, opts in RULES:
            if eq and rule not in ('meek', 'warren'):
                continue
            out.append(dict(kind='count', name='%s %s %s' % (os.path.relpath(f, os.environ.get('DROOP_REPO', '/repo')), rule, opts), rule=rule, opts=opts,
                            n=p.nCand, seats=p.nSeats, lines=lines, equal=eq or None, N=sum(mults), withdrawn=wd or None,
                            constraints=[[i, m] for i, m in enumerate(mults)], monitors=['C01'], budget_s=300, validate='all'))
    return out


def main():
    js = specs()
    bad = 0
    done = 0
    with concurrent.futures.ThreadPoolExecutor(16) as ex:
        for r in ex.map(lambda j: driver.run_worker(j, 400), js):
            done += 1
            ok = r.get('outcome') == 'complete' and not r.get('mismatches') and not r.get('harness_errors') and r.get('validated', 0) >= 1 and not r.get('violations')
            if not ok:
                bad += 1
                print('SELFTEST FAIL', r['spec'].get('name'), r.get('outcome'), (r.get('mismatches') or r.get('harness_errors') or r.get('violations'))[:1])
    print('selftest: %d file x rule runs through the engine, %d disagree with the pristine code' % (done, bad))
    return 3 if bad else 0


if __name__ == '__main__':
    sys.exit(main())
