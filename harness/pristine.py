"""Pristine worker: runs the REAL droop from $DROOP_REPO (default /repo) with no shim of any kind, on concrete
inputs produced by the solver.  Used (a) to validate every explored path against the implementation and
(b) to replay counterexamples before anything is reported.  Protocol: one JSON request per stdin line,
one JSON reply per stdout line."""
import json
import os
import signal
import sys

HERE = os.path.dirname(os.path.dirname(os.path.abspath(__file__)))
if HERE not in sys.path:
    sys.path.insert(0, HERE)
REPO = os.environ.get('DROOP_REPO', '/repo')
sys.path.insert(0, REPO)


class Timeout(Exception):
    pass


def _alarm(signum, frame):
    raise Timeout()


def count_concrete(text, options, wrap=None, limit_s=20):
    "parse + construct + count with the real code; returns (E, prof, exc)"
    from droop.profile import ElectionProfile
    from droop.election import Election
    prof = ElectionProfile(data=text)
    E = Election(prof, dict(options))
    if wrap:
        wrap(E)
    exc = None
    signal.signal(signal.SIGALRM, _alarm)
    signal.setitimer(signal.ITIMER_REAL, limit_s)
    try:
        E.count()
    except Timeout:
        exc = Timeout('count did not finish within %ss' % limit_s)
    except Exception as ex:     # noqa
        exc = ex
    finally:
        signal.setitimer(signal.ITIMER_REAL, 0)
    return E, prof, exc


def handle(req):
    from harness import rec
    kind = req['kind']
    if kind == 'record':
        from harness.universe import Universe, election_options
        U = Universe(req['spec'])
        text = U.concrete_text(req['mvals'], req.get('tvals'))
        E, prof, exc = count_concrete(text, election_options(req['spec']))
        if exc is not None:
            return dict(exc=type(exc).__name__)
        return dict(summary=rec.summarize(E))
    if kind == 'monitor':
        from harness import countrun
        return countrun.concrete_monitor(req)
    if kind == 'call':
        # generic: module.function(**kwargs) on the pristine tree
        import importlib
        mod = importlib.import_module(req['module'])
        return getattr(mod, req['function'])(**req.get('kwargs', {}))
    raise ValueError(kind)


def main():
    out = sys.stdout
    sys.stdout = sys.stderr      # anything droop prints must not corrupt the protocol
    for line in sys.stdin:
        line = line.strip()
        if not line:
            continue
        try:
            rep = handle(json.loads(line))
        except Exception as ex:     # noqa
            import traceback
            rep = dict(error='%s: %s' % (type(ex).__name__, ex), tb=traceback.format_exc()[-1500:])
        out.write(json.dumps(rep) + '\n')
        out.flush()


if __name__ == '__main__':
    main()
