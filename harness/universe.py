"""Universe of symbolic elections U(n, l, B, N) (DESIGN.md section 3.2) and the glue that turns one
feasible path into (a) a symbolic Election that has been counted by the real code and (b) a concrete
BLT text + options that reproduce it."""
import itertools

import z3

from symex import core
from symex.core import SymInt, lz


def all_rankings(n, maxlen=None, cands=None):
    cands = list(cands) if cands is not None else list(range(1, n + 1))
    out = []
    for k in range(1, (maxlen or n) + 1):
        for p in itertools.permutations(cands, k):
            out.append(' '.join(str(c) for c in p))
    return out


def spec_lines(spec):
    "ranking strings of a spec (strict rankings first, then the extra equal-rank lines)"
    if spec.get('lines') is not None:
        lines = list(spec['lines'])
    else:
        lines = all_rankings(spec['n'], spec.get('maxlen'))
    return lines + list(spec.get('equal') or [])


def names_of(n):
    return ['C%d' % c for c in range(1, n + 1)]


def blt_text(n, seats, lines, mults, extra='', names=None, title='T', tie=None):
    "render a BLT text; lines with multiplier 0 are omitted (a 0 multiplier ends the ballot list)"
    names = names or names_of(n)
    head = '%d %d' % (n, seats)
    out = [head]
    if extra:
        out.append(extra)
    if tie:
        out.append('[tie %s]' % ' '.join(str(c) for c in tie))
    for r, m in zip(lines, mults):
        if m:
            out.append('%d %s 0' % (m, r))
    out.append('0')
    for nm in names:
        out.append('"%s"' % nm)
    out.append('"%s"' % title)
    return '\n'.join(out) + '\n'


def header_extra(spec):
    ex = []
    for w in spec.get('withdrawn') or []:
        ex.append('-%d' % w)
    if spec.get('undeclared'):
        ex.append('[undeclared %s]' % ' '.join(str(u) for u in spec['undeclared']))
    if spec.get('tie_list'):
        ex.append('[tie %s]' % ' '.join(str(c) for c in spec['tie_list']))
    if spec.get('droop_line'):
        ex.append('[droop %s]' % spec['droop_line'])
    return ' '.join(ex)


def make_profile(n, seats, lines, mults, extra='', names=None, tie_ranks=None):
    """Parse a template through the REAL reader (unique concrete multipliers identify the lines the
    reader kept), then replace multipliers / nBallots / tieOrder by the given (symbolic) values.
    Returns (profile, kept_indices)."""
    from droop.profile import ElectionProfile
    tags = [1000 + i for i in range(len(lines))]     # unique, and large enough for the reader's ballots >= candidates rule
    text = blt_text(n, seats, lines, tags, extra, names)
    prof = ElectionProfile(data=text)
    kept = []
    total = 0
    for bl in list(prof.ballotLines) + list(prof.ballotLinesEqual):
        i = bl.multiplier - 1000
        kept.append(i)
        bl.multiplier = mults[i]
        total = total + mults[i]
    prof.nBallots = total
    if tie_ranks is not None:
        for cid in range(1, n + 1):
            prof.tieOrder[cid] = tie_ranks[cid - 1]
    return prof, sorted(kept)


class Universe:
    "symbolic variables and preconditions of one job spec"

    def __init__(self, spec):
        self.spec = spec
        self.n = spec['n']
        self.seats = spec['seats']
        self.lines = spec_lines(spec)
        self.N = spec['N']
        self.B = spec.get('B', self.N)
        self.ms = [z3.Int('m%d' % i) for i in range(len(self.lines))]
        self.symtie = bool(spec.get('symtie'))
        self.ts = [z3.Int('tie%d' % i) for i in range(1, self.n + 1)] if self.symtie else None
        self.declared = None
        if spec.get('tie_list'):
            # a concrete [tie ...] option that goes through the real reader; the declared ranks are kept for the monitors
            self.declared = [spec['tie_list'].index(c) + 1 for c in range(1, self.n + 1)]
        self.extra = header_extra(spec)
        self.names = spec.get('names')
        # which lines survive the reader (withdrawn stripped)?  Probe once, concretely.
        prof, kept = make_profile(self.n, self.seats, self.lines, [1] * len(self.lines), self.extra, self.names)
        self.kept = kept
        self.eligible = sorted(prof.eligible)
        self.withdrawn = sorted(prof.withdrawn)
        self.undeclared = sorted(prof.undeclared)

    def total(self):
        return z3.Sum([self.ms[i] for i in self.kept]) if self.kept else z3.IntVal(0)

    def pre(self, e):
        for i, v in enumerate(self.ms):
            if i in self.kept:
                e.assume(z3.And(v >= (1 if self.spec.get('nozero') else 0), v <= self.B))
            else:
                e.assume(v == 0)
        if self.spec.get('fixed_total'):
            e.assume(self.total() == self.N)     # the renderers print the ballot total with %d: keep it concrete
        else:
            e.assume(z3.And(self.total() >= len(self.eligible), self.total() <= self.N))
        if self.ts:
            for t in self.ts:
                e.assume(z3.And(t >= 1, t <= self.n))
            e.assume(z3.Distinct(*self.ts))
        for c in self.spec.get('constraints') or []:
            # constraints: list of [index, value] pins (used when replaying test files symbolically)
            e.assume(self.ms[c[0]] == c[1])

    def profile(self, mults=None, tie=None):
        mults = [SymInt(v) for v in self.ms] if mults is None else mults
        if tie is None and self.ts:
            tie = [SymInt(t) for t in self.ts]
        prof, kept = make_profile(self.n, self.seats, self.lines, mults, self.extra, self.names, tie_ranks=tie)
        if self.spec.get('fixed_total'):
            prof.nBallots = self.N
        return prof

    def concretize(self, model):
        "model -> dict(mvals, tvals)"
        mv = [model.eval(v, model_completion=True).as_long() for v in self.ms]
        tv = [model.eval(t, model_completion=True).as_long() for t in self.ts] if self.ts else None
        return dict(mvals=mv, tvals=tv)

    def concrete_text(self, mvals, tvals=None):
        tie = None
        if tvals:
            tie = [c for c, _ in sorted(zip(range(1, self.n + 1), tvals), key=lambda x: x[1])]
        return blt_text(self.n, self.seats, self.lines, mvals, self.extra, self.names, tie=tie)


def election_options(spec):
    o = dict(rule=spec['rule'])
    o.update(spec.get('opts') or {})
    return o
