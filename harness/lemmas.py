"""Lemmas that guard the two summaries used in count mode (DESIGN.md 3.1): they run the REAL code symbolically (leaf mode,
unbounded operands) next to the summary and ask the solver for a difference."""
import z3

from symex import core, shims
from symex.core import SymInt, lz


class FakeE:
    pass


def guarded_cmp_lemma(p, g):
    "real Guarded.__cmp__ == summary: same result, same statistics afterwards, for all operands and all prior statistics"
    import droop.values.guarded as gm
    from droop.options import Options
    G = gm.Guarded
    a, b, mx0, mn0 = z3.Ints('la lb lmax lmin')
    eng = core.Engine(timeout_ms=20000, nia=True, max_branches=200)
    bad = []

    def body(e):
        G.initialize(Options(dict(arithmetic='guarded', precision=p, guard=g)))
        x, y = G(SymInt(a), True), G(SymInt(b), True)
        G.maxDiff, G.minDiff = SymInt(mx0), SymInt(mn0)
        r1 = G._symex_orig_cmp(x, y)
        s1 = (G.maxDiff, G.minDiff)
        G.maxDiff, G.minDiff = SymInt(mx0), SymInt(mn0)
        r2 = G.__cmp__(x, y)
        s2 = (G.maxDiff, G.minDiff)
        if r1 != r2:
            bad.append('result %s vs %s' % (r1, r2))
            return
        if e.check(z3.Or(lz(s1[0]) != lz(s2[0]), lz(s1[1]) != lz(s2[1]))):
            bad.append('statistics differ: %s' % e.solver.model())
    outcome = eng.explore(body, None)
    return outcome == 'complete' and not bad and eng.path_status.get('ok') == eng.stats['paths'], bad, eng.stats


def ballot_vote_lemma(opts):
    "real Election.Ballot.vote == summary (value and, under guarded arithmetic, statistics), symbolic weight and multiplier"
    from droop.election import Election
    from droop.options import Options
    from droop import values
    import droop.values.guarded as gm
    w, m, mx0, mn0, wd = z3.Ints('lw lm lmax lmin lwd')
    eng = core.Engine(timeout_ms=20000, nia=True, max_branches=200)
    bad = []
    rational = opts.get('arithmetic') == 'rational'

    def pre(e):
        e.assume(m >= 0)
        if rational:
            e.assume(z3.And(wd >= 1, wd <= 6))

    def body(e):
        # a real ballot of a real election, built through the public API (no dependence on Ballot's constructor signature)
        from droop.profile import ElectionProfile
        o2 = dict(rule='wigm')
        o2.update({k: opts[k] for k in ('arithmetic', 'precision', 'guard', 'display') if opts.get(k) is not None})
        E = Election(ElectionProfile(data='2 1\n1 1 0\n1 2 0\n0\n"A"\n"B"\n"T"\n'), o2)
        V = E.V
        blt = E.ballots[0]
        blt.multiplier = V(SymInt(m))
        if rational:
            blt.weight = V(SymInt(w), e.realize(wd))
        else:
            blt.weight = V(SymInt(w), True)
        guarded = V is gm.Guarded
        if guarded:
            gm.Guarded.maxDiff, gm.Guarded.minDiff = SymInt(mx0), SymInt(mn0)
        r1 = Election.Ballot._symex_orig_vote.fget(blt)
        s1 = (getattr(gm.Guarded, 'maxDiff', 0), getattr(gm.Guarded, 'minDiff', 0))
        if guarded:
            gm.Guarded.maxDiff, gm.Guarded.minDiff = SymInt(mx0), SymInt(mn0)
        r2 = blt.vote
        s2 = (getattr(gm.Guarded, 'maxDiff', 0), getattr(gm.Guarded, 'minDiff', 0))
        if type(r1) is not type(r2):
            bad.append('types')
            return
        if rational:
            c = z3.Or(lz(r1._numerator) * lz(r2._denominator) != lz(r2._numerator) * lz(r1._denominator))
        else:
            c = lz(r1._value) != lz(r2._value)
        if guarded:
            c = z3.Or(c, lz(s1[0]) != lz(s2[0]), lz(s1[1]) != lz(s2[1]))
        if e.check(c):
            bad.append('differs: %s' % e.solver.model())
    outcome = eng.explore(body, pre)
    return outcome == 'complete' and not bad and eng.path_status.get('ok') == eng.stats['paths'], bad, eng.stats


def check_for(options_list):
    "run the lemmas needed for the given effective option dicts; returns list of failures"
    from droop.options import Options
    fails = []
    done = set()
    for o in options_list:
        arith = o.get('arithmetic')
        key = (arith, o.get('precision'), o.get('guard'))
        if key in done:
            continue
        done.add(key)
        if arith == 'guarded':
            ok, bad, _ = guarded_cmp_lemma(o['precision'], o['guard'])
            if not ok:
                fails.append('Guarded.__cmp__ summary lemma fails for %s: %s' % (key, bad[:2]))
        if arith in ('guarded', 'fixed', 'integer', 'rational'):
            ok, bad, _ = ballot_vote_lemma(o)
            if not ok:
                fails.append('Ballot.vote summary lemma fails for %s: %s' % (key, bad[:2]))
    return fails


def effective_options(spec_options):
    "the arithmetic options an Election with these options ends up with (real Options + rule.options())"
    from droop.election import Election
    from droop.profile import ElectionProfile
    p = ElectionProfile(data='2 1\n1 1 0\n1 2 0\n0\n"a"\n"b"\n"t"\n')
    E = Election(p, dict(spec_options))
    o = E.options
    return dict(arithmetic=o.getopt('arithmetic'), precision=o.getopt('precision'), guard=o.getopt('guard'))
