"""Count-mode job worker: explores every feasible path of one (rule, options, seats, universe) job with the
real droop code on symbolic ballot multiplicities, evaluates the requested monitors on each path, validates
each path against the pristine implementation, and replays every counterexample before reporting it."""
import json
import os
import signal
import subprocess
import sys
import time
import traceback

import z3

from symex import core, shims
from symex.core import SymInt, lz
from harness import rec
from harness.universe import Universe, election_options

HERE = os.path.dirname(os.path.dirname(os.path.abspath(__file__)))


class PathTimeout(core.PathLimit):
    pass


def _alarm(signum, frame):
    raise PathTimeout()


class Ctx:
    "what a monitor sees of one path (symbolic) or of one concrete run"

    def __init__(self, spec, U, symbolic):
        self.spec = spec
        self.U = U
        self.symbolic = symbolic
        self.rule = spec['rule']
        self.opts = spec.get('opts') or {}
        self.n = U.n
        self.seats = U.seats
        self.E = None
        self.prof = None
        self.exc = None
        self.ms = None          # z3 terms, one per line of the universe (zeros included)
        self.ts = None
        self.N = None
        self.snaps = []
        self.bads = {}          # key -> [cond]
        self.reached = {}
        self.extra = {}

    def bad(self, key, cond):
        "register a condition whose satisfiability means the property is violated"
        if isinstance(cond, bool):
            cond = z3.BoolVal(cond)
        self.bads.setdefault(key, []).append(cond)

    def reach(self, ev, k=1):
        self.reached[ev] = self.reached.get(ev, 0) + k

    # convenience
    @property
    def S(self):
        return rec.scale_of(self.E)

    @property
    def acts(self):
        return rec.actions(self.E)

    @property
    def method(self):
        return self.E.rule.method

    def electable(self):
        und = set(self.U.undeclared) if self.rule == 'mpls' else set()
        return [c for c in self.U.eligible if c not in und]


def install_snapshots(E, ctx):
    "observer around Election.logAction (reads only): ballot/candidate state at each non-log action"
    orig = E.logAction

    def wrapped(tag, msg):
        orig(tag, msg)
        if tag != 'log':
            bs = [(b.index, rec.pyraw(b.weight), rec.pyraw(b.multiplier), b.ranking) for b in E.ballots]
            cs = {c.cid: (c.state, c.pending, rec.pyraw(c.vote), rec.pyraw(c.quotient), rec.pyraw(c.kf)) for c in E.C}
            ctx.snaps.append(dict(tag=tag, msg=msg, ballots=bs, cands=cs, quota=rec.pyraw(E.quota),
                                  exhausted=rec.pyraw(getattr(E, 'exhausted', None)),
                                  extra={k: rec.pyraw(getattr(E, k)) for k in ('ta', 'tx', 'va') if hasattr(E, k)},
                                  nact=len(E.erecord['actions'])))
    E.logAction = wrapped


def get_monitors(names):
    from props import monitors as M
    return [getattr(M, 'mon_' + nm) for nm in names]


def run_election(ctx, prof, monitors, round_cap=None):
    from droop.election import Election
    E = Election(prof, election_options(ctx.spec))
    ctx.E = E
    ctx.prof = prof
    if any(getattr(m, 'needs_snaps', False) for m in monitors):
        install_snapshots(E, ctx)
    if any(getattr(m, 'needs_surplus_hist', False) for m in monitors):
        # observer (reads only): every assignment to E.surplus with the number of actions recorded so far; the record keeps
        # only the surplus of a round's last iteration, and "the surplus stopped decreasing" needs the one before it
        hist = ctx.extra.setdefault('surplus_hist', [])

        def _get(self):
            return self.__dict__['_obs_surplus']

        def _set(self, v):
            self.__dict__['_obs_surplus'] = v
            hist.append((len(self.erecord['actions']) if getattr(self, 'erecord', None) else 0, v))
        cur = E.__dict__.pop('surplus', None)
        E.__class__ = type('ObservedElection', (Election,), {'surplus': property(_get, _set)})
        E.__dict__['_obs_surplus'] = cur
    if round_cap:
        orig_new = E.newRound

        def newRound():
            if E.round >= round_cap:
                ctx.extra['round_cap_hit'] = True
                raise PathTimeout()
            orig_new()
        E.newRound = newRound
    try:
        E.count()
    except Exception as ex:     # engine steering exceptions are BaseException and pass through
        if isinstance(ex, core.HarnessError):
            raise
        ctx.exc = ex


def concrete_ctx(spec, mvals, tvals, monitors):
    "run the pristine code on the concrete election and build the same Ctx"
    from droop.profile import ElectionProfile
    U = Universe(spec)
    ctx = Ctx(spec, U, False)
    ctx.ms = [z3.IntVal(v) for v in mvals]
    ctx.ts = [z3.IntVal(v) for v in tvals] if tvals else ([z3.IntVal(r) for r in U.declared] if U.declared else None)
    ctx.N = z3.IntVal(sum(mvals[i] for i in U.kept))
    text = U.concrete_text(mvals, tvals)
    ctx.extra['text'] = text
    prof = ElectionProfile(data=text)
    signal.signal(signal.SIGALRM, _alarm)
    signal.setitimer(signal.ITIMER_REAL, 20)
    try:
        run_election(ctx, prof, monitors)
    except PathTimeout:
        ctx.exc = TimeoutError('count did not finish within 20 s')
    finally:
        signal.setitimer(signal.ITIMER_REAL, 0)
    return ctx


def concrete_monitor(req):
    "pristine-side: evaluate monitors on a concrete election; returns the keys that are violated"
    monitors = get_monitors(req['monitors'])
    ctx = concrete_ctx(req['spec'], req['mvals'], req.get('tvals'), monitors)
    for m in monitors:
        m(ctx)
    hit = {}
    for key, conds in ctx.bads.items():
        for c in conds:
            v = z3.simplify(c)
            if z3.is_true(v):
                hit[key] = True
                break
            if not z3.is_false(v):
                s = z3.Solver()
                s.add(c)
                if s.check() == z3.sat:
                    hit[key] = True
                    break
    return dict(keys=sorted(hit), exc=(type(ctx.exc).__name__ + ': ' + str(ctx.exc)[:200]) if ctx.exc else None,
                text=ctx.extra.get('text'), elected=sorted(c.cid for c in (ctx.E.elected or [])) if ctx.E else None)


class Pristine:
    "persistent pristine worker subprocess"

    def __init__(self):
        env = dict(os.environ)
        env['PYTHONPATH'] = HERE
        self.p = subprocess.Popen([sys.executable, '-m', 'harness.pristine'], stdin=subprocess.PIPE,
                                  stdout=subprocess.PIPE, stderr=subprocess.DEVNULL, cwd=HERE, env=env, text=True)

    def ask(self, req):
        self.p.stdin.write(json.dumps(req) + '\n')
        self.p.stdin.flush()
        line = self.p.stdout.readline()
        if not line:
            raise core.HarnessError('pristine worker died')
        return json.loads(line)

    def close(self):
        try:
            self.p.stdin.close()
            self.p.wait(timeout=5)
        except Exception:
            self.p.kill()


def run_support_batch(spec):
    """Zero-free supports: one exploration per listed set of ballot lines, every line present at least once.  In the
    ordinary universe a line with multiplicity 0 is still an element of E.ballots, which is invisible to code that only
    sums multiplier*weight but not to code that depends on which ballot comes first or next in the list; here the list
    the real code walks holds exactly the ballots of the concrete file."""
    t0 = time.time()
    budget = float(spec.get('budget_s', 600))
    total = None
    for k, support in enumerate(spec['supports']):
        sub = dict(spec, lines=list(support), nozero=True, supports=None, budget_s=max(1.0, budget - (time.time() - t0)))
        sub.pop('supports')
        r = run_job(sub, setup=(k == 0))
        for key in ('violations', 'harness_errors', 'mismatches'):
            for item in r.get(key) or []:
                item['subspec'] = sub
        if total is None:
            total = r
            total['spec'] = spec
            total['supports_done'] = 1
            continue
        total['supports_done'] += 1
        for key in ('violations', 'harness_errors', 'mismatches', 'samples'):
            total[key] = (total.get(key) or []) + (r.get(key) or [])
        total['samples'] = total['samples'][:3]
        total['validated'] += r['validated']
        for kk, v in r['reach'].items():
            total['reach'][kk] = total['reach'].get(kk, 0) + v
        for kk, v in r['stats'].items():
            if isinstance(v, (int, float)):
                total['stats'][kk] = total['stats'].get(kk, 0) + v
        for kk, v in (r.get('path_status') or {}).items():
            total['path_status'][kk] = total['path_status'].get(kk, 0) + v
        total['functions'] = sorted(set(total['functions']) | set(r['functions']))
        if r['outcome'] != 'complete':
            total['outcome'] = r['outcome']
            break
        if time.time() - t0 > budget:
            total['outcome'] = 'budget'
            break
    total['wall_s'] = round(time.time() - t0, 2)
    return total


def run_job(spec, setup=True):
    t0 = time.time()
    if setup:
        shims.install_count_shims(markers=bool(spec.get('markers')), summary=not spec.get('no_summary'))
    monitors = get_monitors(spec['monitors'])
    U = Universe(spec)
    lemma_fails = []
    if setup and not spec.get('no_summary'):
        from harness import lemmas
        lemma_fails = lemmas.check_for([lemmas.effective_options(election_options(spec))])
    eng = core.Engine(timeout_ms=int(spec.get('query_timeout_ms', 20000)), max_branches=int(spec.get('max_branches', 20000)))
    budget = float(spec.get('budget_s', 600))
    path_limit = float(spec.get('path_limit_s', 60))
    validate = spec.get('validate', 'all')
    res = dict(spec=spec, violations=[], harness_errors=[], reach={}, samples=[], validated=0, functions=[],
               mismatches=[], lemma=None)
    pristine = Pristine()
    seen_keys = {}
    funcs = set()
    npath = [0]
    repo_droop = os.path.join(os.path.realpath(shims.REPO), 'droop') + os.sep

    def prof_hook(frame, event, arg):
        if event == 'call':
            co = frame.f_code
            fn = co.co_filename
            if fn.startswith(repo_droop):
                funcs.add('%s:%s' % (fn[len(repo_droop):], getattr(co, 'co_qualname', co.co_name)))

    def body(e):
        ctx = Ctx(spec, U, True)
        ctx.ms = list(U.ms)
        ctx.ts = list(U.ts) if U.ts else ([z3.IntVal(r) for r in U.declared] if U.declared else None)
        ctx.N = U.total()
        prof = U.profile()
        first = npath[0] == 0
        npath[0] += 1
        signal.signal(signal.SIGALRM, _alarm)
        signal.setitimer(signal.ITIMER_REAL, path_limit)
        if first:
            sys.setprofile(prof_hook)
        try:
            run_election(ctx, prof, monitors, round_cap=spec.get('round_cap'))
        finally:
            if first:
                sys.setprofile(None)
            signal.setitimer(signal.ITIMER_REAL, 0)
        for m in monitors:
            m(ctx)
        if ctx.extra.get('dbg') and len(res.setdefault('dbg', [])) < 5:
            res['dbg'].append(ctx.extra['dbg'][:2])
        for k, v in ctx.reached.items():
            res['reach'][k] = res['reach'].get(k, 0) + v
        # one query per key
        for key, conds in ctx.bads.items():
            if seen_keys.get(key, 0) >= int(spec.get('max_per_key', 2)):
                continue
            if spec.get('split_queries'):
                cond = None
                for c_ in conds:
                    c_ = z3.simplify(c_)
                    if not z3.is_false(c_) and e.check(c_):
                        cond = c_
                        break
                if cond is None:
                    continue
            else:
                cond = z3.Or(*conds) if len(conds) > 1 else conds[0]
                cond = z3.simplify(cond)
                if z3.is_false(cond):
                    continue
            if e.check(cond):
                m = e.solver.model()
                conc = U.concretize(m)
                seen_keys[key] = seen_keys.get(key, 0) + 1
                rep = pristine.ask(dict(kind='monitor', spec=spec, mvals=conc['mvals'], tvals=conc['tvals'],
                                        monitors=spec['monitors']))
                item = dict(key=key, mvals=conc['mvals'], tvals=conc['tvals'], replay=rep)
                if 'error' in rep:
                    res['harness_errors'].append(dict(item, why='pristine replay raised: ' + rep['error']))
                elif key in rep.get('keys', []):
                    res['violations'].append(item)
                elif rep.get('keys'):
                    item['note'] = 'reproduced under different key(s)'
                    res['violations'].append(item)
                else:
                    res['harness_errors'].append(dict(item, why='counterexample does not reproduce on the pristine code'))
        # differential validation of the engine on this path
        if validate == 'all' or (validate == 'sample' and npath[0] % 10 == 1):
            m = e.models[-1] if e.models else e.model()
            conc = U.concretize(m)
            rep = pristine.ask(dict(kind='record', spec=spec, mvals=conc['mvals'], tvals=conc['tvals']))
            if ctx.exc is not None:
                ok = rep.get('exc') == type(ctx.exc).__name__
                mine = type(ctx.exc).__name__
            else:
                mine = rec.evaluate(rec.summarize(ctx.E), m)
                ok = json.loads(json.dumps(mine)) == rep.get('summary')
            res['validated'] += 1
            if not ok:
                res['mismatches'].append(dict(mvals=conc['mvals'], tvals=conc['tvals'], symbolic=str(mine)[:600],
                                              concrete=str(rep)[:600]))
                # The encoding and the implementation part ways on this input (always reported, exit 3).  If the REAL run
                # on it breaks the property, that is a violation in its own right: evaluate the monitors on the
                # pristine run and report what they say (found by replay, not by the solver; said so in the item).
                if len(res['mismatches']) <= 3:
                    rep2 = pristine.ask(dict(kind='monitor', spec=spec, mvals=conc['mvals'], tvals=conc['tvals'],
                                             monitors=spec['monitors']))
                    for k2 in rep2.get('keys') or []:
                        if seen_keys.get(k2, 0) < int(spec.get('max_per_key', 2)):
                            seen_keys[k2] = seen_keys.get(k2, 0) + 1
                            res['violations'].append(dict(key=k2, mvals=conc['mvals'], tvals=conc['tvals'], replay=rep2,
                                                          note='found while validating a path model against the implementation: '
                                                               'the symbolic run and the real run diverge on this input, and the real run breaks the property'))
            if len(res['samples']) < 3 and npath[0] % 7 == 1:
                res['samples'].append(dict(blt=U.concrete_text(conc['mvals'], conc['tvals']), options=election_options(spec),
                                           elected=sorted(c.cid for c in (ctx.E.elected or [])) if ctx.exc is None else None,
                                           exception=type(ctx.exc).__name__ if ctx.exc else None,
                                           actions=len(rec.actions(ctx.E))))

    def on_path(status):
        # C01 (termination): a path that hits the per-path cap is replayed concretely; only a concrete count that also fails
        # to finish within its wall limit is a violation
        if status not in ('limit', 'budget') or 'C01' not in spec['monitors'] or spec.get('allow_truncated'):
            return
        if seen_keys.get('count-does-not-terminate', 0) >= 1:
            return
        try:
            eng.deadline = None
            if not eng.check():
                return
            conc = U.concretize(eng.solver.model())
        except core.PathAbort:
            return
        rep = pristine.ask(dict(kind='monitor', spec=spec, mvals=conc['mvals'], tvals=conc['tvals'], monitors=['C01']))
        if (rep.get('exc') or '').startswith('TimeoutError'):
            seen_keys['count-does-not-terminate'] = 1
            res['violations'].append(dict(key='count-does-not-terminate', mvals=conc['mvals'], tvals=conc['tvals'], replay=rep))
            eng.deadline = time.time()      # reported: do not spend the rest of the budget on further non-terminating paths

    try:
        if lemma_fails:
            raise core.HarnessError('; '.join(lemma_fails))
        outcome = eng.explore(body, U.pre, deadline=t0 + budget, on_path=on_path)
    except core.HarnessError as ex:
        outcome = 'harness_error'
        res['harness_errors'].append(dict(why=str(ex), tb=traceback.format_exc()[-1200:]))
    except Exception as ex:
        outcome = 'harness_error'
        res['harness_errors'].append(dict(why='%s: %s' % (type(ex).__name__, ex), tb=traceback.format_exc()[-1500:]))
    pristine.close()
    res['outcome'] = outcome
    res['stats'] = dict(eng.stats)
    res['path_status'] = getattr(eng, 'path_status', {})
    res['functions'] = sorted(funcs)
    res['stubs'] = list(shims.STUBS)
    res['wall_s'] = round(time.time() - t0, 2)
    return res


if __name__ == '__main__':
    spec = json.loads(sys.argv[1]) if len(sys.argv) > 1 else json.load(sys.stdin)
    out = run_support_batch(spec) if spec.get('supports') else run_job(spec)
    sys.stdout.write('\n@@RESULT@@' + json.dumps(out) + '\n')
