"""Token-mode worker (C15, C16, C10 layout part): the BLT reader of the real code runs on token streams in
which some tokens are symbolic -- "the i-th entry of a finite alphabet" (SymTok) or "the decimal numeral of a
symbolic int" (NumTok).  Predicates on tokens become disjunctions over the index variable and do not fork;
everything else realises the token."""
import json
import re as real_re
import sys
import time
import traceback

import z3

from symex import core, shims
from symex.core import SymInt, mkb, lz
from harness.countrun import Pristine

ALPHABET = ['0', '1', '2', '3', '4', '9', '00', '01', '-0', '-1', '-2', '-3', '-9', '1=2', '2=1', '1=1', '2=2', '1=2=2', '1=', '=', '=1', 'x', 'x=1',
            '"', '"a"', '"a', 'a"', '""', '"a b"', '/*', '*/', '/*x*/', '/*/', '#', '#x',
            '[', ']', '[tie', '[nick', '[droop', '[withdrawn', '[undeclared', '[tie]', '[nick]', '[droop]', '[withdrawn]', '[bogus',
            '1]', '2]', '3]', 'x]', 'y]', 'z]', 'rule=meek]', 'arithmetic=fixed]',
            '(', '(a', 'a)', '(a)', '(b)', ')', '٣', '²', '"é"', 'a', 'b', 'c', '-', '--1', '+1', '1.0', '1e1', '﻿3']

RULES = ['wigm', 'wigm-prf', 'wigm-prf-batch', 'cfer', 'cfer-batch', 'scotland', 'mpls', 'qpq', 'meek', 'warren', 'meek-prf']

TEMPLATES = {
    'plain': [['3', '2'], ['4', '1', '2', '0'], ['2', '3', '0'], ['3', '2', '1', '3', '0'], ['0'], ['"A"'], ['"B"'], ['"C"'], ['"Title"']],
    'opts': [['3', '1'], ['[tie', '3', '1', '2]'], ['[nick', 'a', 'b', 'c]'], ['-2'], ['[droop', 'arithmetic=fixed', 'precision=4]'],
             ['2', 'a', 'c', '0'], ['1', 'c', '0'], ['1', 'b', '0'], ['0'], ['"A"', '"B"', '"C"'], ['"T"', '"src"', '"cmt"']],
    'ids': [['3', '2'], ['[withdrawn', '3]'], ['[undeclared', '2]'], ['(x1)', '1', '2', '0'], ['(x2)', '2=1', '3', '0'],
            ['(x3)', '2', '0'], ['0'], ['"A"', '"B"', '"C', 'D"'], ['"T', 't"']],
    'cmts': [['3', '1', '#', 'c'], ['/*', 'x', '/*', 'y', '*/', 'z', '*/'], ['2', '1', '0', '#x'], ['1', '2', '3', '0'], ['1', '3', '0'],
             ['0'], ['"A', '#', 'a"'], ['"/*B*/"'], ['"C"'], ['"T"']],
    'tiny': [['1', '1'], ['1', '1', '0'], ['0'], ['"A"'], ['"T"']],
    'wd': [['4', '2'], ['-1', '-4'], ['3', '2', '3', '0'], ['2', '1', '4', '0'], ['1', '3', '1=4', '2', '0'], ['0'],
           ['"A"', '"B"', '"C"', '"D"'], ['"T"']],
}


class SymTok:
    "the token ALPHABET[idx], idx a z3 Int"

    def __init__(self, name):
        self.name = name
        self.idx = z3.Int(name)

    def _pred(self, f):
        return mkb(z3.Or([self.idx == j for j, t in enumerate(ALPHABET) if f(t)] + [z3.BoolVal(False)]))

    def startswith(self, p):
        return self._pred(lambda t: t.startswith(p))

    def endswith(self, p):
        return self._pred(lambda t: t.endswith(p))

    def __eq__(self, o):
        if isinstance(o, (SymTok, NumTok)):
            return self.real() == (o.real() if isinstance(o, SymTok) else o)
        return self._pred(lambda t: t == o)

    def __ne__(self, o):
        if isinstance(o, (SymTok, NumTok)):
            return self.real() != (o.real() if isinstance(o, SymTok) else o)
        return self._pred(lambda t: t != o)

    def real(self):
        return ALPHABET[core.ENGINE.realize(self.idx)]

    def __hash__(self):
        return hash(self.real())

    def __str__(self):
        return '<%s>' % self.name
    __repr__ = __str__

    def __format__(self, spec):
        return '<%s>' % self.name

    def split(self, *a):
        return self.real().split(*a)

    def strip(self, *a):
        return self.real().strip(*a)

    def lstrip(self, *a):
        return self.real().lstrip(*a)

    def rstrip(self, *a):
        return self.real().rstrip(*a)

    def __add__(self, o):
        return self.real() + (o.real() if isinstance(o, SymTok) else o)

    def __radd__(self, o):
        return o + self.real()

    def __len__(self):
        return len(self.real())

    def __getattr__(self, name):
        # any other str method: predicates (isdigit, isalpha, ...) stay symbolic, the rest realises the token
        if name.startswith('__') or not hasattr(str, name):
            raise AttributeError(name)
        if name.startswith('is'):
            return lambda *a: self._pred(lambda t: getattr(t, name)(*a))
        return getattr(self.real(), name)

    def __contains__(self, x):
        return x in self.real()

    def __getitem__(self, i):
        return self.real()[i]

    def __iter__(self):
        return iter(self.real())

    def __symex_int__(self, *a):
        return int(self.real(), *a)

    def __symex_isinstance__(self, cls):
        if cls is str or (isinstance(cls, tuple) and str in cls):
            return True
        return False

    def render(self, model):
        return ALPHABET[model.eval(self.idx, model_completion=True).as_long()]


class NumTok:
    "the decimal numeral of the symbolic int m >= 0 (canonical: no sign, no leading zeros)"

    def __init__(self, name):
        self.name = name
        self.m = z3.Int(name)

    def startswith(self, p):
        if p and p[0].isdigit() and len(p) == 1:
            raise core.HarnessError('NumTok.startswith(digit)')
        return False

    def endswith(self, p):
        if p and p[-1].isdigit():
            raise core.HarnessError('NumTok.endswith(digit)')
        return False

    def __eq__(self, o):
        if isinstance(o, str):
            if real_re.match(r'(0|[1-9][0-9]*)$', o):
                return mkb(self.m == int(o))
            return False
        raise core.HarnessError('NumTok == %r' % (o,))

    def __ne__(self, o):
        r = self.__eq__(o)
        return (not r) if isinstance(r, bool) else mkb(z3.Not(r.e))

    __hash__ = None

    def __str__(self):
        return '<%s>' % self.name
    __repr__ = __str__

    def split(self, sep=None):
        if sep == '=':
            return [self]
        raise core.HarnessError('NumTok.split')

    def __getattr__(self, name):
        if name in ('isdigit', 'isdecimal', 'isnumeric', 'isalnum', 'isascii', 'isprintable'):
            return lambda: True
        if name in ('isalpha', 'isspace', 'isupper', 'islower', 'istitle', 'isidentifier'):
            return lambda: False
        if name.startswith('__') or not hasattr(str, name):
            raise AttributeError(name)
        raise core.HarnessError('NumTok.%s' % name)

    def __symex_int__(self, *a):
        return SymInt(self.m)

    def __symex_isinstance__(self, cls):
        if cls is str or (isinstance(cls, tuple) and str in cls):
            return True
        return False

    def render(self, model):
        return str(model.eval(self.m, model_completion=True).as_long())


class PatProxy:
    def __init__(self, pat):
        self.pat = real_re.compile(pat)

    def match(self, s):
        if isinstance(s, SymTok):
            return s._pred(lambda t: self.pat.match(t) is not None)
        if isinstance(s, NumTok):
            return real_re.compile(self.pat.pattern).match('7') is not None and True
        return self.pat.match(s)


class ReShim:
    def compile(self, p, *a):
        return PatProxy(p)

    def match(self, p, s, *a):
        return PatProxy(p).match(s)


class Line:
    def __init__(self, toks):
        self.toks = toks

    def split(self):
        return list(self.toks)


class Blob:
    "what the reader is handed instead of a str: lines of tokens"

    def __init__(self, lines):
        self.lines = lines

    def splitlines(self):
        return [Line(l) for l in self.lines]

    def __bool__(self):
        return True


def install_token_shims():
    shims.import_droop()
    import droop.profile as pm
    pm.re = ReShim()
    pm.int = core.sym_int
    pm.isinstance = core.sym_isinstance
    shims._note('re / int / isinstance as seen by droop.profile: evaluated per alphabet entry on symbolic tokens, delegated to the real ones otherwise')


def render(lines, model):
    out = []
    for l in lines:
        out.append(' '.join(t.render(model) if isinstance(t, (SymTok, NumTok)) else t for t in l))
    return '\n'.join(out) + '\n'


# ---------------------------------------------------------------------------------------------------
# outcome classification (shared by the symbolic side and the pristine replay)

def profile_invariants(p):
    "list of violated invariants of an accepted profile (C15 last sentence / C16)"
    bad = []
    n = p.nCand
    if not isinstance(n, int) or n < 1:
        bad.append('nCand')
        return bad
    allc = set(range(1, n + 1))
    if not (set(p.withdrawn) <= allc):
        bad.append('withdrawn-out-of-range')
    if not (set(p.undeclared) <= allc):
        bad.append('undeclared-out-of-range')
    if set(p.eligible) != allc - set(p.withdrawn):
        bad.append('eligible-set')
    if not p.nSeats or p.nSeats > len(p.eligible):
        bad.append('seats>eligible')
    for bl in p.ballotLines:
        r = list(bl.ranking)
        if len(set(r)) != len(r):
            bad.append('repeated-id')
        if any(c in p.withdrawn for c in r):
            bad.append('withdrawn-in-ranking')
        if any(not (1 <= c <= n) for c in r):
            bad.append('id-out-of-range')
        if not r:
            bad.append('empty-ballot-kept')
    for bl in p.ballotLinesEqual:
        flat = [c for rk in bl.ranking for c in rk]
        if len(set(flat)) != len(flat):
            bad.append('repeated-id')
        if any(c in p.withdrawn for c in flat):
            bad.append('withdrawn-in-ranking')
        if any(not (1 <= c <= n) for c in flat):
            bad.append('id-out-of-range')
    if set(p.tieOrder.keys()) != allc or len(set(p.tieOrder.values())) != n:
        bad.append('tie-order-not-total')
    if set(p.candidateName.keys()) != allc or set(p.nickName.keys()) != allc:
        bad.append('names')
    return sorted(set(bad))


def classify(make_profile, nballots_check=None):
    """run the reader; returns (kind, detail, profile).  kind: error | accepted | crash | invalid | ctor-crash"""
    from droop.profile import ElectionProfile, ElectionProfileError
    from droop.election import Election
    try:
        p = make_profile()
    except ElectionProfileError:
        return 'error', None, None
    except core.PathAbort:
        raise
    except core.HarnessError:
        raise
    except Exception as ex:     # noqa
        return 'crash', '%s' % type(ex).__name__, None
    bad = profile_invariants(p)
    if bad:
        return 'invalid', ','.join(bad), p
    if not p.options:
        for r in RULES:
            try:
                Election(p, dict(rule=r))
            except core.PathAbort:
                raise
            except core.HarnessError:
                raise
            except Exception as ex:     # noqa
                return 'ctor-crash', '%s:%s' % (r, type(ex).__name__), p
    return 'accepted', None, p


def replay_text(text):
    "pristine side"
    import signal
    from droop.profile import ElectionProfile

    class _Hang(Exception):
        pass

    def _h(signum, frame):
        raise _Hang()
    signal.signal(signal.SIGALRM, _h)
    signal.setitimer(signal.ITIMER_REAL, 20)
    try:
        kind, detail, p = classify(lambda: ElectionProfile(data=text))
    except _Hang:
        return dict(kind='crash', detail='hang', violated=True)
    finally:
        signal.setitimer(signal.ITIMER_REAL, 0)
    out = dict(kind=kind, detail=detail, violated=kind in ('crash', 'invalid', 'ctor-crash'))
    if p is not None:
        nb = p.nBallots
        kept = sum(bl.multiplier for bl in list(p.ballotLines) + list(p.ballotLinesEqual))
        if nb != kept:
            out['violated'] = True
            out['kind'] = 'invalid'
            out['detail'] = (out.get('detail') or '') + ' nballots!=sum'
        if nb < len(p.eligible):
            out['violated'] = True
            out['kind'] = 'invalid'
            out['detail'] = (out.get('detail') or '') + ' ballots<eligible'
    return out


def replay_ncand(n):
    return replay_text('%d 1\n%d %d 0\n0\n' % (n, n, n) + '"c"\n' * n + '"T"\n')


def structure_of(text):
    "pristine side (C15): the public attributes of the parsed profile as plain data"
    from droop.profile import ElectionProfile
    p = ElectionProfile(data=text)
    return profile_struct(p)


def profile_struct(p):
    return dict(title=p.title, source=p.source, comment=p.comment, nSeats=p.nSeats, nCand=p.nCand,
                nBallots=p.nBallots if isinstance(p.nBallots, int) else None,
                eligible=sorted(p.eligible), withdrawn=sorted(p.withdrawn), undeclared=sorted(p.undeclared),
                names=[p.candidateName[c] for c in sorted(p.candidateName)], order=[p.candidateOrder[c] for c in sorted(p.candidateOrder)],
                tie=[p.tieOrder[c] for c in sorted(p.tieOrder)], nick=[p.nickName[c] for c in sorted(p.nickName)],
                options=list(p.options),
                ballots=[[bl.multiplier if isinstance(bl.multiplier, int) else None, list(bl.ranking)] for bl in p.ballotLines],
                ballots_equal=[[bl.multiplier if isinstance(bl.multiplier, int) else None, [list(r) for r in bl.ranking]] for bl in p.ballotLinesEqual])


# ---------------------------------------------------------------------------------------------------

# ---------------------------------------------------------------------------------------------------
# C15 / C10(ii): well-formed files.  A structure is written down independently of the reader; renderings of it contain
# symbolic tokens (number vs nickname per candidate reference, numerals of symbolic multipliers, a symbolic comment
# token in a gap); the parsed profile must equal the structure.

COMMENT_TOKENS = ['/*x*/', '/*/', '/**/', '#x', '#', '#"', '/*"*/', '#/*']

STRUCTS = {
    'A': dict(n=3, seats=2, names=['Ann A', 'Bob', 'Cy#c'], title='The /* title', nicks=None, tie=None, withdrawn=[], wd_style='-n',
              undeclared=[], source=None, comment=None, droop=[], ids=False,
              ballots=[[[1], [2]], [[2], [3]], [[3], [2], [1]]]),
    'B': dict(n=4, seats=2, names=['A', 'B "b', 'C', 'D'], title='T', nicks=['a', 'b', 'c', 'd'], tie=[3, 1, 4, 2], withdrawn=[2], wd_style='-n',
              undeclared=[4], source='src x', comment='cmt', droop=[], ids=False,
              ballots=[[[1], [3]], [[2]], [[2], [4], [1]], [[1, 3], [2], [4]]]),
    'C': dict(n=3, seats=1, names=['A', 'B', 'C'], title='T t', nicks=None, tie=[2, 3, 1], withdrawn=[1, 3], wd_style='[withdrawn', undeclared=[],
              source='s', comment=None, droop=['rule=meek', 'arithmetic=fixed'], ids=False,
              ballots=[[[2]], [[1], [2]], [[3]], [[3, 1], [2]]]),
    'D': dict(n=3, seats=2, names=['A', 'B', 'C'], title='T', nicks=['x', 'y', 'z'], tie=None, withdrawn=[], wd_style='-n', undeclared=[], source=None,
              comment=None, droop=[], ids=True, ballots=[[[1], [2]], [[2]], [[3], [1], [2]]]),
    'E': dict(n=4, seats=3, names=['A', 'B', 'C', 'D'], title='T', nicks=None, tie=[4, 3, 2, 1], withdrawn=[4], wd_style='[withdrawn', undeclared=[1, 2],
              source=None, comment=None, droop=[], ids=False, ballots=[[[4], [1]], [[1, 4], [2, 3]], [[2], [4], [3]], [[4, 4]]]),
}
STRUCTS['E']['ballots'][3] = [[4], [4]] and [[4]]      # a ballot naming only the withdrawn candidate
# both withdrawal syntaxes in one header, and two separate [undeclared] options
STRUCTS['F'] = dict(n=5, seats=2, names=['A', 'B', 'C', 'D', 'E'], title='T', nicks=None, tie=[2, 3, 1, 5, 4], withdrawn=[2, 4], wd_style='both',
                    undeclared=[1, 5], und_style='two', source=None, comment=None, droop=[], ids=False,
                    ballots=[[[1], [2], [3]], [[2], [4]], [[4], [2], [5]], [[3, 4], [2], [1]], [[5]], [[3]]])


def expected_structure(T, mvals):
    "what the file denotes (independent of the reader).  mvals: multipliers (ints)"
    n = T['n']
    wd = set(T['withdrawn'])
    ballots, ballots_eq = [], []
    nb = 0
    for m, rk in zip(mvals, T['ballots']):
        groups = [[c for c in g if c not in wd] for g in rk]
        groups = [g for g in groups if g]
        if not groups:
            continue
        nb += m
        if any(len(g) > 1 for g in groups):
            ballots_eq.append([m, groups])
        else:
            ballots.append([m, [g[0] for g in groups]])
    tie = T['tie']
    tie_ranks = [tie.index(c) + 1 for c in range(1, n + 1)] if tie else list(range(1, n + 1))
    return dict(title=T['title'], source=T['source'], comment=T['comment'], nSeats=T['seats'], nCand=n, nBallots=nb,
                eligible=[c for c in range(1, n + 1) if c not in wd], withdrawn=sorted(wd), undeclared=sorted(T['undeclared']),
                names=list(T['names']), order=list(range(1, n + 1)), tie=tie_ranks,
                nick=list(T['nicks']) if T['nicks'] else [str(c) for c in range(1, n + 1)], options=list(T['droop']),
                ballots=ballots, ballots_equal=ballots_eq)


class RefTok(SymTok):
    "a candidate reference: the candidate's number or its nickname (symbolic choice)"

    def __init__(self, name, cid, nick):
        SymTok.__init__(self, name)
        for t in (str(cid), nick):
            if t not in ALPHABET:
                ALPHABET.append(t)
        self.allowed = [ALPHABET.index(str(cid)), ALPHABET.index(nick)]


class CommentTok(SymTok):
    def __init__(self, name):
        SymTok.__init__(self, name)
        for t in COMMENT_TOKENS:
            if t not in ALPHABET:
                ALPHABET.append(t)
        self.allowed = [ALPHABET.index(t) for t in COMMENT_TOKENS]


def render_struct(T, gap_positions, symrefs=None):
    """token lines of a rendering of T with symbolic parts; returns (lines, syms, mults).
    symrefs: indices of the candidate references that are symbolic (number or nickname); the others alternate"""
    syms, mults = [], []
    cnt = [0]

    def ref(c):
        if T['nicks']:
            cnt[0] += 1
            if symrefs is None or cnt[0] in symrefs:
                r = RefTok('r%d' % cnt[0], c, T['nicks'][c - 1])
                syms.append(r)
                return r
            return str(c) if cnt[0] % 2 else T['nicks'][c - 1]
        return str(c)

    def quoted(s):
        toks = ('"%s"' % s).split()
        return toks
    lines = [[str(T['n']), str(T['seats'])]]
    if T['nicks']:
        ns = list(T['nicks'])
        lines.append(['[nick'] + ns[:-1] + [ns[-1] + ']'])
    if T['tie']:
        lines.append(['[tie'] + [ref(c) for c in T['tie'][:-1]] + [ref(T['tie'][-1]), ']'])
    if T['withdrawn']:
        if T['wd_style'] == '-n':
            lines.append(['-%d' % c for c in T['withdrawn']])
        elif T['wd_style'] == 'both':
            lines.append(['-%d' % T['withdrawn'][0]])
            lines.append(['[withdrawn'] + [ref(c) for c in T['withdrawn'][1:]] + [']'])
        else:
            lines.append(['[withdrawn'] + [ref(c) for c in T['withdrawn']] + [']'])
    if T['undeclared']:
        if T.get('und_style') == 'two':
            for c in T['undeclared']:
                lines.append(['[undeclared', ref(c), ']'])
        else:
            lines.append(['[undeclared'] + [ref(c) for c in T['undeclared']] + [']'])
    if T['droop']:
        lines.append(['[droop'] + T['droop'][:-1] + [T['droop'][-1] + ']'])
    for i, rk in enumerate(T['ballots']):
        if T['ids']:
            head = ['(id', '%d)' % i] if i % 2 else ['(b%d)' % i]
            mults.append(1)
        else:
            m = NumTok('m%d' % i)
            syms.append(m)
            mults.append(m)
            head = [m]
        body = []
        for g in rk:
            if len(g) == 1:
                body.append(ref(g[0]))
            else:
                body.append('='.join(str(c) for c in g))       # equal ranks are written with numbers
        lines.append(head + body + ['0'])
    lines.append(['0'])
    for nm in T['names']:
        lines.append(quoted(nm))
    lines.append(quoted(T['title']))
    if T['source'] is not None:
        lines.append(quoted(T['source']))
    if T['comment'] is not None:
        lines.append(quoted(T['comment']))
    # gaps: a symbolic comment token appended at the end of the chosen lines (so that '#...' forms stay harmless)
    blocks = []
    for k, gp in enumerate(gap_positions):
        if isinstance(gp, (list, tuple)) and gp[0] == 'block':
            blocks.append(gp[1])
            continue
        c = CommentTok('g%d' % k)
        syms.append(c)
        lines[gp] = lines[gp] + [c]
    # a comment block of several lines, quoting ballot-like and name-like lines (inserted after the given lines, last first)
    for g in sorted(blocks, reverse=True):
        lines[g + 1:g + 1] = [['/*', 'rejected', 'papers:'], ['2', '1', '3', '0'], ['0'], ['"x"', '/*', 'nested', '*/'], ['7', '*/'],
                              ['/*', 'precinct', '#', '7', '*/'], ['/*', 'a', '/*', 'b', '#1', '*/', 'c', '*/']]
    return lines, syms, mults


def struct_nrefs(T):
    lines, syms, _ = render_struct(T, [])
    return len([x for x in syms if isinstance(x, RefTok)])


def struct_gaps(T):
    "line indices after which a comment token may be appended without entering a quoted string"
    lines, _, _ = render_struct(T, [])
    out = []
    for i, l in enumerate(lines):
        q = any(isinstance(t, str) and t.startswith('"') for t in l)
        multi = len(l) > 1 and q
        # a quoted name spanning several tokens is closed at the end of its line: appending after it is fine
        out.append(i)
    return out


def run_wellformed(spec, res, pristine, budget):
    from droop.profile import ElectionProfile, ElectionProfileError
    T = STRUCTS[spec['struct']]
    outcome = 'complete'
    for gaps in spec['gapsets']:
        lines, syms, mults = render_struct(T, gaps, spec.get('symrefs'))
        eng = core.Engine(timeout_ms=20000, max_branches=4000)
        numtoks = [m for m in mults if isinstance(m, NumTok)]
        seen = {}

        def pre(e):
            for s_ in syms:
                if isinstance(s_, NumTok):
                    e.assume(z3.And(s_.m >= 1, s_.m <= 10 ** 9))
                else:
                    e.assume(z3.Or([s_.idx == j for j in s_.allowed]))
            # well-formed: enough ballots for the eligible candidates (the reader's own validity rule)
            wd = set(T['withdrawn'])
            kept = [m for m, rk in zip(mults, T['ballots']) if any(c not in wd for g in rk for c in g)]
            tot = z3.Sum([lz(SymInt(m.m)) if isinstance(m, NumTok) else z3.IntVal(m) for m in kept] + [z3.IntVal(0)])
            e.assume(tot >= T['n'] - len(wd))

        def violation(e, key, cond=None):
            if seen.get(key, 0) >= 1:
                return
            seen[key] = 1
            if cond is not None:
                if not e.check(cond):
                    return
                m = e.solver.model()
            else:
                m = e.model()
            text = render(lines, m)
            mv = [int(mm.render(m)) if isinstance(mm, NumTok) else mm for mm in mults]
            kw = dict(struct=spec['struct'], text=text, mvals=mv)
            rep = pristine.ask(dict(kind='call', module='harness.tokrun', function='wellformed_replay', kwargs=kw))
            item = dict(key=key + ' struct=%s' % spec['struct'], input=kw, replay=rep, replay_module='harness.tokrun',
                        replay_function='wellformed_replay', replay_kwargs=kw)
            if rep.get('violated'):
                res['violations'].append(item)
            else:
                res['harness_errors'].append(dict(why='well-formed counterexample does not reproduce: %s %r -> %s' % (key, text, rep)))

        def body(e):
            try:
                p = ElectionProfile(data=Blob(lines))
            except ElectionProfileError:
                violation(e, 'well-formed-file-rejected')
                return
            except core.PathAbort:
                raise
            except core.HarnessError:
                raise
            except Exception as ex:     # noqa
                violation(e, 'reader-crashed:%s' % type(ex).__name__)
                return
            res['reach']['layout-compared'] = res['reach'].get('layout-compared', 0) + 1
            res['reach']['accepted'] = res['reach'].get('accepted', 0) + 1
            exp = expected_structure(T, [SymInt(m.m) if isinstance(m, NumTok) else m for m in mults])
            got = profile_struct_sym(p)
            conds = []
            for k in exp:
                if k in ('nBallots', 'ballots', 'ballots_equal'):
                    continue
                if got[k] != exp[k]:
                    violation(e, 'attribute-differs:%s' % k)
                    return
            for kind in ('ballots', 'ballots_equal'):
                if len(got[kind]) != len(exp[kind]) or [b[1] for b in got[kind]] != [b[1] for b in exp[kind]]:
                    violation(e, 'attribute-differs:%s' % kind)
                    return
                for (gm_, _), (em_, _) in zip(got[kind], exp[kind]):
                    conds.append(lz(gm_) != lz(em_))
            conds.append(lz(got['nBallots']) != lz(exp['nBallots']))
            c_ = z3.simplify(z3.Or(*conds))
            if not z3.is_false(c_):
                violation(e, 'multiplier-or-ballot-total-differs', c_)
            bad = profile_invariants(p)
            if bad:
                violation(e, 'accepted-profile-invariant:%s' % ','.join(bad))
            if res['_validate']:
                m = e.models[-1] if e.models else e.model()
                text = render(lines, m)
                mv = [int(mm.render(m)) if isinstance(mm, NumTok) else mm for mm in mults]
                rep = pristine.ask(dict(kind='call', module='harness.tokrun', function='wellformed_replay', kwargs=dict(struct=spec['struct'], text=text, mvals=mv)))
                res['validated'] += 1
                if rep.get('violated') or 'error' in rep:
                    res['harness_errors'].append(dict(why='pristine reader disagrees on %r: %s' % (text, rep)))
                if len(res['samples']) < 3:
                    res['samples'].append(dict(text=text, struct=spec['struct']))
        o = eng.explore(body, pre, deadline=time.time() + budget)
        if o != 'complete':
            outcome = o
        for k, v in eng.stats.items():
            res['stats'][k] = res['stats'].get(k, 0) + v
        for k, v in (getattr(eng, 'path_status', {}) or {}).items():
            res['path_status'][k] = res['path_status'].get(k, 0) + v
    return outcome


def profile_struct_sym(p):
    return dict(title=p.title, source=p.source, comment=p.comment, nSeats=p.nSeats, nCand=p.nCand, nBallots=p.nBallots,
                eligible=sorted(p.eligible), withdrawn=sorted(p.withdrawn), undeclared=sorted(p.undeclared),
                names=[p.candidateName[c] for c in sorted(p.candidateName)], order=[p.candidateOrder[c] for c in sorted(p.candidateOrder)],
                tie=[p.tieOrder[c] for c in sorted(p.tieOrder)], nick=[p.nickName[c] for c in sorted(p.nickName)], options=list(p.options),
                ballots=[[bl.multiplier, list(bl.ranking)] for bl in p.ballotLines],
                ballots_equal=[[bl.multiplier, [list(r) for r in bl.ranking]] for bl in p.ballotLinesEqual])


def wellformed_replay(struct, text, mvals):
    "pristine side: parse the text and compare with the structure it denotes"
    from droop.profile import ElectionProfile, ElectionProfileError
    T = STRUCTS[struct]
    exp = expected_structure(T, mvals)
    try:
        p = ElectionProfile(data=text)
    except ElectionProfileError as ex:
        return dict(violated=True, detail='rejected: %s' % ex)
    except Exception as ex:     # noqa
        return dict(violated=True, detail='crash: %s: %s' % (type(ex).__name__, ex))
    got = profile_struct(p)
    diffs = [k for k in exp if got.get(k) != exp[k]]
    bad = profile_invariants(p)
    return dict(violated=bool(diffs or bad), detail=dict(differs=diffs, invariants=bad, got={k: got[k] for k in diffs}, expected={k: exp[k] for k in diffs}))


def explore_tokens(lines, syms, res, pristine, budget, extra_pre=None, tag=''):
    "lines: list of lists of tokens (str / SymTok / NumTok).  Explore the reader + constructor on them."
    from droop.profile import ElectionProfile
    eng = core.Engine(timeout_ms=20000, max_branches=4000)
    seen = {}

    def pre(e):
        for s in syms:
            if isinstance(s, SymTok):
                e.assume(z3.And(s.idx >= 0, s.idx < len(ALPHABET)))
            else:
                e.assume(z3.And(s.m >= 0, s.m <= 10 ** 6))
        if extra_pre:
            extra_pre(e)

    def body(e):
        import signal
        from harness.countrun import _alarm, PathTimeout
        signal.signal(signal.SIGALRM, _alarm)
        signal.setitimer(signal.ITIMER_REAL, 30)
        try:
            kind, detail, p = classify(lambda: ElectionProfile(data=Blob(lines)))
        except PathTimeout:
            # "never hangs": the reader did not come back; replay the text concretely under a wall limit
            kind, detail, p = 'crash', 'hang', None
        finally:
            signal.setitimer(signal.ITIMER_REAL, 0)
        res['reach'][kind] = res['reach'].get(kind, 0) + 1
        bad = kind in ('crash', 'invalid', 'ctor-crash')
        extra_cond = None
        if p is not None and kind == 'accepted':
            # ballot total = sum of the multipliers kept; ballots >= eligible  (solver assertions when symbolic)
            kept = 0
            for bl in list(p.ballotLines) + list(p.ballotLinesEqual):
                kept = kept + bl.multiplier
            cond = z3.Or(lz(p.nBallots) != lz(kept), lz(p.nBallots) < len(p.eligible))
            cond = z3.simplify(cond)
            if not z3.is_false(cond) and e.check(cond):
                bad = True
                kind, detail = 'invalid', 'nballots'
                extra_cond = cond
        if bad:
            key = '%s:%s' % (kind, detail)
            if seen.get(key, 0) < 2:
                seen[key] = seen.get(key, 0) + 1
                if extra_cond is not None:
                    e.check(extra_cond)
                    m = e.solver.model()
                else:
                    m = e.model()
                text = render(lines, m)
                rep = pristine.ask(dict(kind='call', module='harness.tokrun', function='replay_text', kwargs=dict(text=text)))
                item = dict(key=key + tag, input=dict(text=text), replay=rep, replay_module='harness.tokrun',
                            replay_function='replay_text', replay_kwargs=dict(text=text))
                if rep.get('violated'):
                    res['violations'].append(item)
                else:
                    res['harness_errors'].append(dict(why='token counterexample does not reproduce: %r -> %s (symbolic: %s)' % (text, rep, key)))
        elif res['_validate'] and (eng.stats['paths'] % res['_validate'] == 0):
            m = e.models[-1] if e.models else e.model()
            text = render(lines, m)
            rep = pristine.ask(dict(kind='call', module='harness.tokrun', function='replay_text', kwargs=dict(text=text)))
            res['validated'] += 1
            if rep.get('kind') != kind:
                res['harness_errors'].append(dict(why='outcome differs from pristine reader on %r: symbolic %s, pristine %s' % (text, kind, rep)))
            if len(res['samples']) < 4 and eng.stats['paths'] % 97 == 0:
                res['samples'].append(dict(text=text, outcome=kind))

    outcome = eng.explore(body, pre, deadline=time.time() + budget)
    for k, v in eng.stats.items():
        res['stats'][k] = res['stats'].get(k, 0) + v
    for k, v in (getattr(eng, 'path_status', {}) or {}).items():
        res['path_status'][k] = res['path_status'].get(k, 0) + v
    return outcome


def flat(template):
    return [t for l in template for t in l]


def relines(template, toks):
    "put a flat token list back into the template's line structure (extra tokens go to the last line)"
    out = []
    i = 0
    for l in template:
        out.append(toks[i:i + len(l)])
        i += len(l)
    if i < len(toks):
        out[-1] = out[-1] + toks[i:]
    return [l for l in out]


def run_job(spec):
    t0 = time.time()
    install_token_shims()
    shims.install_int_shims()
    pristine = Pristine()
    res = dict(spec=spec, violations=[], harness_errors=[], reach={}, samples=[], validated=0, functions=[], stats={},
               path_status={}, _validate=int(spec.get('validate_every', 1)))
    budget = float(spec.get('budget_s', 300))
    outcome = 'complete'
    mode = spec['mode']
    try:
        if mode == 'soup':
            L = spec['L']
            toks = [SymTok('t%d' % i) for i in range(L)]
            fixed_prefix = spec.get('prefix') or []
            lines = [fixed_prefix + toks] if spec.get('layout', 'one-line') == 'one-line' else [[t] for t in fixed_prefix + toks]
            outcome = explore_tokens(lines, toks, res, pristine, budget)
        elif mode == 'edit':
            tmpl = TEMPLATES[spec['template']]
            base = flat(tmpl)
            for pos in spec['positions']:
                st = SymTok('t0')
                if spec['edit'] == 'replace':
                    toks = base[:pos] + [st] + base[pos + 1:]
                elif spec['edit'] == 'insert':
                    toks = base[:pos] + [st] + base[pos:]
                else:
                    raise ValueError(spec['edit'])
                lines = relines(tmpl, toks) if spec.get('layout') != 'one-line' else [toks]
                o = explore_tokens(lines, [st], res, pristine, budget, tag=' @%s[%d]%s' % (spec['template'], pos, spec['edit']))
                if o != 'complete':
                    outcome = o
        elif mode == 'edit2':
            tmpl = TEMPLATES[spec['template']]
            base = flat(tmpl)
            for (p1, p2) in spec['pairs']:
                s1, s2 = SymTok('t0'), SymTok('t1')
                toks = list(base)
                toks[p1] = s1
                toks[p2] = s2
                o = explore_tokens(relines(tmpl, toks), [s1, s2], res, pristine, budget)
                if o != 'complete':
                    outcome = o
        elif mode == 'wellformed':
            outcome = run_wellformed(spec, res, pristine, budget)
        elif mode == 'array':
            # the compact ranking array must be able to hold every candidate id: symbolic candidate count
            import droop.profile as pm
            from droop.profile import ElectionProfile
            cap = {'b': 127, 'B': 255, 'h': 32767, 'H': 65535, 'i': 2 ** 31 - 1, 'I': 2 ** 32 - 1, 'l': 2 ** 63 - 1, 'L': 2 ** 64 - 1,
                   'q': 2 ** 63 - 1, 'Q': 2 ** 64 - 1}
            seen_tc = []

            class FakeArray:
                @staticmethod
                def array(tc, vals):
                    seen_tc.append(tc)
                    return list(vals)
            real_array = pm.array
            pm.array = FakeArray
            shims._note('array module as seen by droop.profile -> recorder of the chosen typecode (array law only)')
            n = z3.Int('ncand')
            eng = core.Engine(timeout_ms=20000)

            class P:
                pass

            def pre(e):
                e.assume(z3.And(n >= 1, n <= 10 ** 7))

            def body(e):
                prof = P()
                prof.nCand = SymInt(n)
                prof.withdrawn = set()
                prof.lineNumber = 1
                prof.nBallots = 0
                del seen_tc[:]
                ElectionProfile.BallotLine(prof, 1, [[1]])
                tc = seen_tc[-1]
                res['reach']['typecode-' + tc] = res['reach'].get('typecode-' + tc, 0) + 1
                if e.check(n > cap[tc]):
                    # smallest offending candidate count on this path
                    lo = cap[tc] + 1
                    nv = lo if e.check(n == lo) else e.solver.model().eval(n).as_long()
                    if nv > 200000:
                        res['harness_errors'].append(dict(why='array law: counterexample too large to replay (n=%d)' % nv))
                        return
                    text = '%d 1\n%d %d 0\n0\n' % (nv, nv, nv) + '"c"\n' * nv + '"T"\n'
                    rep = pristine.ask(dict(kind='call', module='harness.tokrun', function='replay_text', kwargs=dict(text=text)))
                    short = '%d 1 / %d %d 0 / 0 / "c" x %d / "T"' % (nv, nv, nv, nv)
                    item = dict(key='crash:%s typecode=%s ncand=%d' % (rep.get('detail'), tc, nv), input=dict(text=short, ncand=nv), replay=rep,
                                replay_module='harness.tokrun', replay_function='replay_ncand', replay_kwargs=dict(n=nv))
                    if rep.get('violated'):
                        res['violations'].append(item)
                    else:
                        res['harness_errors'].append(dict(why='array law counterexample n=%d does not reproduce: %s' % (nv, rep)))
            try:
                outcome = eng.explore(body, pre, deadline=time.time() + budget)
            finally:
                pm.array = real_array
            for k, v in eng.stats.items():
                res['stats'][k] = res['stats'].get(k, 0) + v
        elif mode == 'concrete':
            # truncations and deletions of templates: no symbols, the reader runs on real strings (still through classify)
            from droop.profile import ElectionProfile
            for text in spec['texts']:
                kind, detail, p = classify(lambda: ElectionProfile(data=text))
                res['reach'][kind] = res['reach'].get(kind, 0) + 1
                res['stats']['paths'] = res['stats'].get('paths', 0) + 1
                res['stats']['decisions'] = res['stats'].get('decisions', 0) + 1
                if kind in ('crash', 'invalid', 'ctor-crash'):
                    rep = pristine.ask(dict(kind='call', module='harness.tokrun', function='replay_text', kwargs=dict(text=text)))
                    item = dict(key='%s:%s' % (kind, detail), input=dict(text=text), replay=rep, replay_module='harness.tokrun',
                                replay_function='replay_text', replay_kwargs=dict(text=text))
                    if rep.get('violated'):
                        res['violations'].append(item)
                    else:
                        res['harness_errors'].append(dict(why='does not reproduce: %r' % text))
        else:
            raise ValueError(mode)
    except core.HarnessError as ex:
        outcome = 'harness_error'
        res['harness_errors'].append(dict(why=str(ex), tb=traceback.format_exc()[-1500:]))
    except Exception as ex:     # noqa
        outcome = 'harness_error'
        res['harness_errors'].append(dict(why='%s: %s' % (type(ex).__name__, ex), tb=traceback.format_exc()[-1500:]))
    pristine.close()
    del res['_validate']
    res['outcome'] = outcome
    res['stubs'] = list(shims.STUBS)
    res['functions'] = ['profile.py:ElectionProfile.__init__', 'profile.py:ElectionProfile.bltParse', 'profile.py:ElectionProfile._bltParse',
                        'profile.py:ElectionProfile.__bltBlob', 'profile.py:ElectionProfile.__bltOption', 'profile.py:ElectionProfile.getCid',
                        'profile.py:ElectionProfile.__validate', 'profile.py:ElectionProfile.BallotLine.__init__',
                        'election.py:Election.__init__']
    res['wall_s'] = round(time.time() - t0, 2)
    return res


if __name__ == '__main__':
    spec = json.loads(sys.argv[1]) if len(sys.argv) > 1 else json.load(sys.stdin)
    out = run_job(spec)
    sys.stdout.write('\n@@RESULT@@' + json.dumps(out) + '\n')
