"""Leaf-law worker: runs value-class methods of the real code on symbolic raw operands of unbounded
magnitude (native nonlinear integer arithmetic, no realisation) and asks the solver for a counterexample
to each law on every path.  One process handles a list of (law, cfg) obligations."""
import json
import sys
import time
import traceback

import z3

from symex import core, shims
from symex.core import SymInt
from harness.countrun import Pristine


def run_obligation(law, cfg, pristine, timeout_ms, budget_s):
    from props import laws
    fn, pre = laws.ALL[law]
    out = dict(law=law, cfg=cfg, paths=0, violation=None, harness_error=None, outcome='complete')
    if pre == 'concrete':
        g = fn(cfg, 0, 0, 0)
        out['paths'] = 1
        if not z3.is_true(z3.simplify(g)):
            rep = pristine.ask(dict(kind='call', module='props.laws', function='replay', kwargs=dict(law=law, cfg=cfg, ops=[0, 0, 0])))
            if rep.get('holds') is False:
                out['violation'] = dict(key='%s %s' % (law, ' '.join('%s=%s' % kv for kv in sorted(cfg.items()))), input=dict(cfg=cfg, ops=[0, 0, 0]), replay=rep)
            else:
                out['harness_error'] = 'concrete law fails under shims but holds on the pristine code'
        return out, core.Engine().stats
    eng = core.Engine(timeout_ms=timeout_ms, nia=True, max_branches=2000)
    a, b, c, d = z3.Ints('a b c d')
    rational = law.startswith('rt_') or law == 'str_rational'
    D = cfg.get('D', 6)

    def pre_fn(e):
        if rational:
            # denominators of either sign (Fraction normalises the sign into the numerator)
            if cfg.get('posden'):
                e.assume(z3.And(b >= 1, b <= D, d >= 1, d <= D))
            else:
                e.assume(z3.And(b >= -D, b <= D, b != 0, d >= -D, d <= D, d != 0))
            if pre == 'c' or cfg.get('smallc'):
                e.assume(z3.And(c >= -D, c <= D, c != 0))
        else:
            if pre and 'b' in pre:
                e.assume(b != 0)
            if pre and 'c' in pre:
                e.assume(c != 0)
        for v in (a, b, c, d):     # keep the variables alive in every model
            e.assume(v == v)

    found = []
    validate = [True]

    def body(e):
        if rational:
            bv = e.realize(b)
            dv = e.realize(d)
            cv = e.realize(c) if (pre == 'c' or cfg.get('smallc')) else SymInt(c)
            ops = [SymInt(a), bv, cv, dv]
        else:
            ops = [SymInt(a), SymInt(b), SymInt(c)]
        g = fn(cfg, *ops)
        if isinstance(g, tuple) and g[0] == 'forall':
            neg = z3.And(g[2], z3.Not(g[3]))
        else:
            neg = z3.Not(g)
        if found:
            return
        if validate[0]:
            # differential validation of the engine: the path's own model, run through the pristine classes, must satisfy the law
            m0 = e.models[-1] if e.models else e.model()
            vals0 = [m0.eval(v, model_completion=True).as_long() for v in (a, b, c, d)]
            if not e.check(neg, *[v == x for v, x in zip((a, b, c, d), vals0)]):
                ops0 = vals0 if rational else vals0[:3]
                if law.startswith('str_') and not rational:
                    ops0 = vals0[:1]
                elif law == 'str_rational':
                    ops0 = vals0[:2]
                rep0 = pristine.ask(dict(kind='call', module='props.laws', function='replay', kwargs=dict(law=law, cfg=cfg, ops=ops0)))
                out['validated'] = out.get('validated', 0) + 1
                if rep0.get('holds') is not True:
                    out['harness_error'] = 'law holds symbolically for %s but not on the pristine code: %s' % (ops0, rep0)
                    if rep0.get('holds') is False and 'salvaged' not in out:
                        # the encoding diverges from the implementation here (reported, exit 3), but the REAL classes break the
                        # law on these operands: that is a violation in its own right, found by replay of a path model
                        out['salvaged'] = dict(key='%s %s' % (law, ' '.join('%s=%s' % kv for kv in sorted(cfg.items()))),
                                               input=dict(cfg=cfg, ops=ops0), replay=rep0,
                                               note='found while validating a path model against the implementation')
        if e.check(neg):
            m = e.solver.model()
            vals = [m.eval(v, model_completion=True).as_long() for v in (a, b, c, d)]
            found.append(vals)

    t0 = time.time()
    try:
        outcome = eng.explore(body, pre_fn, deadline=t0 + budget_s)
    except core.HarnessError as ex:
        out['harness_error'] = str(ex) + ' | ' + traceback.format_exc()[-800:]
        outcome = 'harness_error'
    out['outcome'] = outcome
    out['paths'] = eng.stats['paths']
    out['path_status'] = getattr(eng, 'path_status', {})
    if found:
        vals = found[0]
        ops = vals if rational else vals[:3]
        if law.startswith('str_') and not rational:
            ops = vals[:1]
        elif law == 'str_rational':
            ops = vals[:2]
        rep = pristine.ask(dict(kind='call', module='props.laws', function='replay', kwargs=dict(law=law, cfg=cfg, ops=ops)))
        if rep.get('holds') is False:
            out['violation'] = dict(key='%s %s' % (law, ' '.join('%s=%s' % kv for kv in sorted(cfg.items()))), input=dict(cfg=cfg, ops=ops), replay=rep)
        else:
            out['harness_error'] = 'counterexample %s does not reproduce on the pristine code: %s' % (ops, rep)
    if not out.get('violation') and out.get('salvaged'):
        out['violation'] = out['salvaged']
    return out, eng.stats


def run_job(spec):
    t0 = time.time()
    shims.import_droop()
    shims.install_int_shims()
    shims.install_fraction_shims()
    pristine = Pristine()
    res = dict(spec=spec, violations=[], harness_errors=[], reach={}, samples=[], validated=0, functions=[],
               stats={}, path_status={})
    tot = dict(paths=0, queries=0, sat=0, unsat=0, unknown=0, solver_s=0.0, decisions=0, truncated=0)
    outcome = 'complete'
    for ob in spec['obligations']:
        law, cfg = ob
        try:
            o, st = run_obligation(law, cfg, pristine, int(spec.get('query_timeout_ms', 30000)), float(spec.get('ob_budget_s', 120)))
        except Exception as ex:     # noqa
            res['harness_errors'].append(dict(why='%s %s: %s: %s' % (law, cfg, type(ex).__name__, ex), tb=traceback.format_exc()[-1200:]))
            continue
        for k in tot:
            tot[k] += st.get(k, 0)
        for k, v in (o.get('path_status') or {}).items():
            res['path_status'][k] = res['path_status'].get(k, 0) + v
        res['reach'][law] = res['reach'].get(law, 0) + 1
        res['validated'] += o.get('validated', 0)
        if o['violation']:
            res['violations'].append(o['violation'])
        if o['harness_error']:
            res['harness_errors'].append(dict(why='%s %s: %s' % (law, cfg, o['harness_error'])))
        if o['outcome'] not in ('complete',):
            outcome = o['outcome'] if o['outcome'] != 'harness_error' else outcome
            if o['outcome'] == 'budget':
                outcome = 'budget'
        res.setdefault('obligations', []).append(dict(law=law, cfg=cfg, paths=o['paths'], outcome=o['outcome'], status=o.get('path_status'),
                                                      queries=st.get('queries'), solver_s=round(st.get('solver_s', 0), 2)))
        if len(res['samples']) < 3:
            res['samples'].append(dict(law=law, cfg=cfg, paths=o['paths']))
    pristine.close()
    res['outcome'] = outcome
    res['stats'] = tot
    res['stubs'] = list(shims.STUBS)
    res['functions'] = sorted(set(spec.get('functions') or []))
    res['wall_s'] = round(time.time() - t0, 2)
    return res


if __name__ == '__main__':
    spec = json.loads(sys.argv[1]) if len(sys.argv) > 1 else json.load(sys.stdin)
    out = run_job(spec)
    sys.stdout.write('\n@@RESULT@@' + json.dumps(out) + '\n')
