"""Differential / metamorphic count-mode worker (C03 real-vs-real, C07 tie independence, C10, C11, C13b/c, C17
immunity, C20 twice): several elections are derived from the same symbolic universe, counted on the same path
by the real code, and their records compared field by field (numeric fields by solver query).  A counterexample
is rebuilt as concrete BLT texts and replayed on the pristine code, where the full text renderings are compared
as well."""
import itertools
import json
import os
import signal
import sys
import time
import traceback

import z3

from symex import core, shims
from symex.core import SymInt, lz
from harness import rec
from harness.universe import Universe, blt_text, make_profile, names_of, header_extra, election_options
from harness.countrun import Pristine, PathTimeout, _alarm


# ---------------------------------------------------------------------------------------------------
# election descriptions: dict(n, seats, lines, mults, extra, names, tie (ranks per cid or None), options)

def desc_base(U, spec, mults, tie):
    return dict(n=U.n, seats=U.seats, lines=list(U.lines), mults=list(mults), extra=U.extra, names=names_of(U.n), tie=tie,
                options=election_options(spec))


def build_symbolic(d):
    from droop.election import Election
    mults = [SymInt(m) if isinstance(m, z3.ExprRef) else m for m in d['mults']]
    tie = None
    if d.get('tie') is not None:
        tie = [SymInt(t) if isinstance(t, z3.ExprRef) else t for t in d['tie']]
    prof, kept = make_profile(d['n'], d['seats'], d['lines'], mults, d.get('extra', ''), d.get('names'), tie_ranks=tie)
    return Election(prof, dict(d['options']))


def concrete_text(d, model=None):
    def ev(x):
        if isinstance(x, z3.ExprRef):
            return model.eval(x, model_completion=True).as_long()
        return x
    mv = [ev(m) for m in d['mults']]
    tie = None
    if d.get('tie') is not None:
        tv = [ev(t) for t in d['tie']]
        tie = [c for c, _ in sorted(zip(range(1, d['n'] + 1), tv), key=lambda x: x[1])]
    return blt_text(d['n'], d['seats'], d['lines'], mv, d.get('extra', ''), d.get('names'), tie=tie)


# ---------------------------------------------------------------------------------------------------
# record comparison

IGNORED_LOG_PREFIXES = ('Add withdrawn',)


def _acts(E, drop_logs_with=()):
    out = []
    for A in E.erecord['actions']:
        if A['tag'] == 'log' and A['msg'].startswith(tuple(drop_logs_with) + IGNORED_LOG_PREFIXES):
            continue
        out.append(A)
    return out


def _pr(x):
    "value -> (num term, den) or None"
    if x is None:
        return None
    if hasattr(x, '_value'):
        return lz(x._value), 1
    d = x._denominator
    if not isinstance(d, int):
        d = core.ENGINE.realize(lz(d)) if core.ENGINE is not None else int(d)
    return lz(x._numerator), int(d)


def _neq(a, b):
    if a is None or b is None:
        return z3.BoolVal(a is not b)
    return a[0] * b[1] != b[0] * a[1]


def compare_records(EA, EB, cidmap=None, by_name=False, ignore_msgs=False, tally_tol=None, skip_logs=False):
    """returns ('STRUCT', why) or ('COND', [z3 conds that mean 'differs']).  cidmap: cid in A -> cid in B (default identity
    over A's candidates)."""
    A1, A2 = _acts(EA), _acts(EB)
    if skip_logs:
        A1 = [a for a in A1 if a['tag'] != 'log']
        A2 = [a for a in A2 if a['tag'] != 'log']
    if len(A1) != len(A2):
        return 'STRUCT', 'number of actions %d vs %d' % (len(A1), len(A2))
    if cidmap is None:
        cidmap = {c.cid: c.cid for c in EA.C}
    conds = []
    for k, (a, b) in enumerate(zip(A1, A2)):
        if a['tag'] != b['tag'] or a['round'] != b['round']:
            return 'STRUCT', 'action %d: %s/%s round %s/%s' % (k, a['tag'], b['tag'], a['round'], b['round'])
        if not ignore_msgs and a['msg'] != b['msg']:
            return 'STRUCT', 'action %d message %r vs %r' % (k, a['msg'], b['msg'])
        if a['tag'] == 'log':
            continue
        for ca, cb in cidmap.items():
            sa, sb = a['cstate'][ca], b['cstate'][cb]
            if sa['code'] != sb['code'] or sa['state'] != sb['state']:
                return 'STRUCT', 'action %d candidate %s status %s vs %s' % (k, ca, sa['code'], sb['code'])
            if bool(sa.get('pending')) != bool(sb.get('pending')):
                return 'STRUCT', 'action %d candidate %s pending flag' % (k, ca)
            for f in ('vote', 'kf', 'quotient'):
                if (f in sa) != (f in sb):
                    return 'STRUCT', 'action %d candidate %s field %s' % (k, ca, f)
                if f in sa:
                    conds.append(_neq(_pr(sa[f]), _pr(sb[f])))
        for f in ('quota', 'votes', 'nt_votes', 'residual', 'surplus'):
            if (f in a) != (f in b):
                return 'STRUCT', 'action %d field %s' % (k, f)
            if f in a:
                conds.append(_neq(_pr(a[f]), _pr(b[f])))
    return 'COND', conds


def guarded_stats(E):
    "the statistics Guarded.report() prints, right after E's count (None for other arithmetics)"
    import droop.values.guarded as gm
    if E.V is gm.Guarded:
        return (gm.Guarded.maxDiff, gm.Guarded.minDiff)
    return None


def winners_by_name(E):
    return sorted(c.name for c in E.C if c.state == 'elected')


# ---------------------------------------------------------------------------------------------------
# modes: each yields (list of descs, comparator) given the universe

def all_perms(n, limit=None, seed=0):
    ps = [p for p in itertools.permutations(range(1, n + 1)) if p != tuple(range(1, n + 1))]
    if limit and len(ps) > limit:
        import random
        r = random.Random(seed)
        r.shuffle(ps)
        ps = ps[:limit]
    return ps


def permute_desc(d, pi):
    "candidate i gets new id pi[i-1]; names, tie ranks and rankings carried along"
    n = d['n']
    inv = {pi[i]: i + 1 for i in range(n)}      # new id -> old id

    def map_line(ln):
        return ' '.join('='.join(str(pi[int(x) - 1]) for x in tok.split('=')) for tok in ln.split())
    extra = d.get('extra', '')
    new_extra = []
    toks = extra.split()
    k = 0
    while k < len(toks):
        t = toks[k]
        if t.startswith('-') and t[1:].isdigit():
            new_extra.append('-%d' % pi[int(t[1:]) - 1])
        elif t.startswith('['):
            new_extra.append(t)
        elif t.rstrip(']').isdigit():
            new_extra.append(str(pi[int(t.rstrip(']')) - 1]) + (']' if t.endswith(']') else ''))
        else:
            new_extra.append(t)
        k += 1
    names = [d['names'][inv[j] - 1] for j in range(1, n + 1)]
    tie = None
    if d.get('tie') is not None:
        tie = [d['tie'][inv[j] - 1] for j in range(1, n + 1)]
    else:
        tie = [inv[j] for j in range(1, n + 1)]      # default tie order is the old numbering
    return dict(d, lines=[map_line(l) for l in d['lines']], extra=' '.join(new_extra), names=names, tie=tie), {i + 1: pi[i] for i in range(n)}


def delete_desc(d, w):
    "candidate(s) w deleted from the candidate list and every ranking; remaining candidates renumbered"
    ws = set(w) if isinstance(w, (list, tuple)) else {w}
    n = d['n']
    keep = [c for c in range(1, n + 1) if c not in ws]
    new = {c: i + 1 for i, c in enumerate(keep)}
    lines, mults = [], []
    for ln, m in zip(d['lines'], d['mults']):
        toks = []
        for tok in ln.split():
            ids = [new[int(x)] for x in tok.split('=') if int(x) not in ws]
            if ids:
                toks.append('='.join(str(x) for x in ids))
        if toks:
            lines.append(' '.join(toks))
            mults.append(m)
    names = [d['names'][c - 1] for c in keep]
    tie = d.get('tie')
    if tie is not None:
        tie = [tie[c - 1] for c in keep]
    else:
        tie = list(keep)
    return dict(d, n=n - len(ws), lines=lines, mults=mults, names=names, tie=tie), new


# ---------------------------------------------------------------------------------------------------

def run_job(spec):
    t0 = time.time()
    shims.install_count_shims()
    mode = spec['mode']
    U = Universe(spec)
    eng = core.Engine(timeout_ms=int(spec.get('query_timeout_ms', 20000)), max_branches=int(spec.get('max_branches', 40000)))
    budget = float(spec.get('budget_s', 600))
    res = dict(spec=spec, violations=[], harness_errors=[], reach={}, samples=[], validated=0, functions=[], mismatches=[])
    pristine = Pristine()
    seen = {}
    extra_vars = {}
    if mode == 'split':
        extra_vars['s'] = [z3.Int('s%d' % i) for i in range(len(U.lines))]
    if mode == 'tie2':
        extra_vars['u'] = [z3.Int('tieB%d' % i) for i in range(1, U.n + 1)]
    if mode == 'tie2' and not U.ts:
        raise core.HarnessError('tie2 needs symtie')

    def pre(e):
        U.pre(e)
        if mode == 'split':
            mask = spec.get('splitmask')
            for i_, (s_, m_) in enumerate(zip(extra_vars['s'], U.ms)):
                if spec.get('nozero'):
                    # every line and every part really exists in the file (no zero-multiplicity artefacts)
                    if mask is None or mask[i_]:
                        e.assume(z3.And(m_ >= 2, s_ >= 1, s_ <= m_ - 1))
                    else:
                        e.assume(z3.And(m_ >= 1, s_ == 0))
                else:
                    e.assume(z3.And(s_ >= 0, s_ <= m_))
        if mode == 'withdraw':
            # both elections must be valid: enough ballots remain once candidate w is gone
            ws = [str(x) for x in (spec['w'] if isinstance(spec['w'], list) else [spec['w']])]
            keep = [U.ms[i] for i in U.kept if any(x not in ws for tok in U.lines[i].split() for x in tok.split('='))]
            e.assume(z3.Sum(keep + [z3.IntVal(0)]) >= len(U.eligible) - len(ws))
        if mode == 'tie2':
            for t in extra_vars['u']:
                e.assume(z3.And(t >= 1, t <= U.n))
            e.assume(z3.Distinct(*extra_vars['u']))

    def reach(k, n=1):
        res['reach'][k] = res['reach'].get(k, 0) + n

    class ZeroLineArtefact(Exception):
        pass

    def count(E):
        try:
            E.count()
        except Exception as ex:     # noqa
            if isinstance(ex, core.HarnessError):
                raise
            # an exception inside a count: C01's subject, not this check's.  It may also be an artefact of a ballot line
            # with multiplicity 0 (not expressible in a BLT file); either way the pair is not compared on this path
            res['reach']['count-raised:%s' % type(ex).__name__] = res['reach'].get('count-raised:%s' % type(ex).__name__, 0) + 1
            raise ZeroLineArtefact()
        return E

    path_pairs = []
    path_flag = [False]

    def report_violation(e, key, cond, pairs):
        "pairs: list of (descA, descB, cmp kwargs) to replay"
        path_pairs.extend(pairs)
        if cond is not None:
            cond = z3.simplify(cond)
            if z3.is_false(cond) or not e.check(cond):
                return
            m = e.solver.model()
        else:
            m = e.model()
        path_flag[0] = True
        if seen.get(key, 0) >= 2:
            return
        seen[key] = seen.get(key, 0) + 1
        items = []
        for (dA, dB, kw) in pairs:
            items.append(dict(textA=concrete_text(dA, m), optionsA=dA['options'], textB=concrete_text(dB, m), optionsB=dB['options'], kw=kw))
        rep = pristine.ask(dict(kind='call', module='harness.diffrun', function='replay_pairs', kwargs=dict(items=items, mode=mode)))
        item = dict(key=key, input=dict(items=items), replay=rep, replay_module='harness.diffrun', replay_function='replay_pairs',
                    replay_kwargs=dict(items=items, mode=mode), mvals=[m.eval(v, model_completion=True).as_long() for v in U.ms])
        if rep.get('violated'):
            res['violations'].append(item)
        elif 'error' in rep:
            res['harness_errors'].append(dict(why='pristine replay failed: %s' % rep['error'], tb=rep.get('tb')))
        else:
            res['harness_errors'].append(dict(why='differential counterexample does not reproduce (%s): %s' % (key, json.dumps(items)[:600])))

    def body(e):
        base = desc_base(U, spec, U.ms, U.ts)
        signal.signal(signal.SIGALRM, _alarm)
        signal.setitimer(signal.ITIMER_REAL, float(spec.get('path_limit_s', 180)))
        try:
            if mode == 'split':
                EA = count(build_symbolic(base))
                order = list(reversed(range(len(U.lines))))
                mask = spec.get('splitmask') if spec.get('nozero') else None
                second = [i for i in range(len(U.lines)) if mask is None or mask[i]]
                linesB = [U.lines[i] for i in order] + [U.lines[i] for i in second]
                multsB = [U.ms[i] - extra_vars['s'][i] for i in order] + [extra_vars['s'][i] for i in second]
                dB = dict(base, lines=linesB, mults=multsB)
                statsA = guarded_stats(EA)
                EB = count(build_symbolic(dB))
                statsB = guarded_stats(EB)
                pairs = [(base, dB, dict())]
                kind, x = compare_records(EA, EB)
                reach('pair-compared')
                if statsA is not None and spec.get('nozero'):
                    # the report prints the comparison statistics of guarded arithmetic: they are part of the rendering
                    report_violation(e, 'presentation:arithmetic-report-statistics',
                                     z3.Or(lz(statsA[0]) != lz(statsB[0]), lz(statsA[1]) != lz(statsB[1])), [(base, dB, dict(stats=True))])
                if kind == 'STRUCT':
                    report_violation(e, 'presentation:' + x.split(':')[0][:40], None, pairs)
                else:
                    report_violation(e, 'presentation:value', z3.Or(*x) if x else z3.BoolVal(False), pairs)
            elif mode == 'opts':
                dA = dict(base, options=dict(spec['optionsA']), extra=(base['extra'] + ' ' + spec.get('extraA', '')).strip())
                dB = dict(base, options=dict(spec['optionsB']), extra=(base['extra'] + ' ' + spec.get('extraB', '')).strip())
                EA = count(build_symbolic(dA))
                EB = count(build_symbolic(dB))
                kw = dict(ignore_msgs=bool(spec.get('ignore_msgs')), skip_logs=bool(spec.get('skip_logs')))
                kind, x = compare_records(EA, EB, **kw)
                reach('pair-compared')
                if kind == 'STRUCT':
                    report_violation(e, 'options:' + x.split(':')[0][:40], None, [(dA, dB, kw)])
                else:
                    report_violation(e, 'options:value', z3.Or(*x) if x else z3.BoolVal(False), [(dA, dB, kw)])
            elif mode == 'twice':
                # the same profile object handed to two fresh Election objects, one after the other
                from droop.election import Election
                EA = build_symbolic(base)
                prof = EA.electionProfile
                count(EA)
                EB = count(Election(prof, dict(base['options'])))
                kind, x = compare_records(EA, EB)
                reach('pair-compared')
                if kind == 'STRUCT':
                    report_violation(e, 'twice:' + x[:40], None, [(base, base, dict())])
                else:
                    report_violation(e, 'twice:value', z3.Or(*x) if x else z3.BoolVal(False), [(base, base, dict())])
            elif mode == 'perm':
                EA = count(build_symbolic(base))
                wA = winners_by_name(EA)
                for pi in all_perms(U.n, spec.get('perm_limit'), spec.get('seed', 0)):
                    dB, cmap = permute_desc(base, pi)
                    EB = count(build_symbolic(dB))
                    reach('pair-compared')
                    kw = dict(cidmap={str(k): v for k, v in cmap.items()}, final_only=True)
                    if winners_by_name(EB) != wA:
                        report_violation(e, 'renumbering:winners', None, [(base, dB, kw)])
                        continue
                    fa, fb = rec.actions(EA)[-1]['cstate'], rec.actions(EB)[-1]['cstate']
                    conds = []
                    for ca, cb in cmap.items():
                        if ('vote' in fa[ca]) != ('vote' in fb[cb]):
                            conds.append(z3.BoolVal(True))
                        elif 'vote' in fa[ca]:
                            conds.append(_neq(_pr(fa[ca]['vote']), _pr(fb[cb]['vote'])))
                    report_violation(e, 'renumbering:final-tallies', z3.Or(*conds) if conds else z3.BoolVal(False), [(base, dB, kw)])
            elif mode == 'withdraw':
                w = spec['w']
                wl = w if isinstance(w, list) else [w]
                dA = dict(base, extra=(base['extra'] + ' ' + ' '.join('-%d' % x for x in wl)).strip())
                EA = count(build_symbolic(dA))
                dB, new = delete_desc(base, w)
                EB = count(build_symbolic(dB))
                reach('pair-compared')
                kw = dict(cidmap={str(k): v for k, v in new.items()}, withdrawn=wl)
                kind, x = compare_records(EA, EB, cidmap=new)
                if kind == 'STRUCT':
                    report_violation(e, 'withdrawn-vs-deleted:' + x.split(':')[0][:40], None, [(dA, dB, kw)])
                else:
                    report_violation(e, 'withdrawn-vs-deleted:value', z3.Or(*x) if x else z3.BoolVal(False), [(dA, dB, kw)])
            elif mode == 'tie2':
                EA = count(build_symbolic(base))
                nties = sum(1 for a in EA.erecord['actions'] if a['tag'] == 'tie')
                if nties:
                    reach('tie-logged')
                    return
                reach('no-tie-logged')
                dB = dict(base, tie=extra_vars['u'])
                EB = count(build_symbolic(dB))
                kw = dict()
                kind, x = compare_records(EA, EB)
                if kind == 'STRUCT':
                    report_violation(e, 'tie-order-dependence:' + x.split(':')[0][:40], None, [(base, dB, kw)])
                else:
                    report_violation(e, 'tie-order-dependence:value', z3.Or(*x) if x else z3.BoolVal(False), [(base, dB, kw)])
            elif mode == 'gq':
                # C13(c): guarded vs the real Rational
                import droop.values.guarded as gm
                p, g = spec['p'], spec['g']
                dA = dict(base, options=dict(base['options'], arithmetic='guarded', precision=p, guard=g))
                dB = dict(base, options=dict(base['options'], arithmetic='rational'))
                EA = count(build_symbolic(dA))
                geps = max(10 ** g // 2, 1)
                maxd, mind = lz(gm.Guarded.maxDiff), lz(gm.Guarded.minDiff)
                recA = _acts(EA)
                EB = count(build_symbolic(dB))
                recB = _acts(EB)
                premise = z3.And(maxd * 100 < geps, mind > 100 * geps)
                if not e.check(premise):
                    reach('premise-fails')
                    return
                reach('premise-holds')
                e.assume(premise)       # the rest of this path is explored under the premise only (re-added on replay)
                kw = dict(gq=[p, g])
                A1 = [a for a in recA if a['tag'] != 'log']
                A2 = [a for a in recB if a['tag'] != 'log']
                struct = None
                if len(A1) != len(A2):
                    struct = 'length'
                else:
                    for a, b in zip(A1, A2):
                        if a['tag'] != b['tag'] or {c: s['state'] for c, s in a['cstate'].items()} != {c: s['state'] for c, s in b['cstate'].items()}:
                            struct = 'action'
                            break
                if struct:
                    report_violation(e, 'quasi-exact:structure-' + struct, None, [(dA, dB, kw)])
                    return
                Sg = 10 ** (p + g)
                unit = 10 ** g
                diffs = []
                for a, b in zip(A1, A2):
                    pairs_ = [(s['vote'], b['cstate'][c]['vote']) for c, s in a['cstate'].items() if 'vote' in s] + [(a['quota'], b['quota'])]
                    for gvv, qv in pairs_:
                        gv = lz(gvv._value)
                        qn, qd = _pr(qv)
                        dd = gv * qd - qn * Sg
                        diffs.append(z3.Or(dd > unit * qd, -dd > unit * qd))
                report_violation(e, 'quasi-exact:value', z3.Or(*diffs) if diffs else z3.BoolVal(False), [(dA, dB, kw)])
            else:
                raise core.HarnessError('unknown diff mode %s' % mode)
        except ZeroLineArtefact:
            return
        finally:
            signal.setitimer(signal.ITIMER_REAL, 0)
        # differential validation of the engine: this path's own model, counted by the pristine code, must agree
        if path_pairs and not path_flag[0] and spec.get('validate', True) and (eng.stats['paths'] % int(spec.get('validate_every', 1)) == 0):
            m = e.models[-1] if e.models else e.model()
            items = [dict(textA=concrete_text(dA, m), optionsA=dA['options'], textB=concrete_text(dB, m), optionsB=dB['options'], kw=kw)
                     for (dA, dB, kw) in path_pairs[:3]]
            rep = pristine.ask(dict(kind='call', module='harness.diffrun', function='replay_pairs', kwargs=dict(items=items, mode=mode)))
            res['validated_n'] = res.get('validated_n', 0) + 1
            if rep.get('violated') or 'error' in rep:
                res['harness_errors'].append(dict(why='pair equal symbolically but not on the pristine code: %s %s' % (rep, json.dumps(items)[:500])))
        del path_pairs[:]
        path_flag[0] = False
        if len(res['samples']) < 2 and eng.stats['paths'] % 37 == 0:
            m = e.models[-1] if e.models else e.model()
            res['samples'].append(dict(mode=mode, blt=concrete_text(base, m), options=base['options']))

    try:
        from harness import lemmas
        optsets = [election_options(spec)]
        if mode == 'opts':
            optsets = [dict(spec['optionsA']), dict(spec['optionsB'])]
        if mode == 'gq':
            optsets = [dict(election_options(spec), arithmetic='guarded', precision=spec['p'], guard=spec['g']), dict(election_options(spec), arithmetic='rational')]
        lf = lemmas.check_for([lemmas.effective_options(o) for o in optsets])
        if lf:
            raise core.HarnessError('; '.join(lf))
        outcome = eng.explore(body, pre, deadline=t0 + budget)
    except core.HarnessError as ex:
        outcome = 'harness_error'
        res['harness_errors'].append(dict(why=str(ex), tb=traceback.format_exc()[-1500:]))
    except Exception as ex:     # noqa
        outcome = 'harness_error'
        res['harness_errors'].append(dict(why='%s: %s' % (type(ex).__name__, ex), tb=traceback.format_exc()[-1500:]))
    pristine.close()
    res['outcome'] = outcome
    res['stats'] = dict(eng.stats)
    res['path_status'] = getattr(eng, 'path_status', {})
    res['stubs'] = list(shims.STUBS)
    res['validated'] = res.get('validated_n', 0)
    res['wall_s'] = round(time.time() - t0, 2)
    return res


# ---------------------------------------------------------------------------------------------------
# pristine side

def _render_all(E):
    return dict(report=E.report(), dump=E.dump(), json=E.json())


def replay_pairs(items, mode):
    "count both elections of each pair with the pristine code and compare them concretely"
    from harness.pristine import count_concrete
    import re as _re
    out = []
    violated = False
    for it in items:
        EA, pA, excA = count_concrete(it['textA'], it['optionsA'])
        if mode == 'gq':
            import droop.values.guarded as gm
            stats = (gm.Guarded.maxDiff, gm.Guarded.minDiff)
        if mode == 'twice' and excA is None:
            # the same profile object again, in a fresh Election
            from droop.election import Election
            EB, pB, excB = Election(pA, dict(it['optionsB'])), pA, None
            try:
                EB.count()
            except Exception as ex:     # noqa
                excB = ex
        else:
            EB, pB, excB = count_concrete(it['textB'], it['optionsB'])
        kw = dict(it.get('kw') or {})
        if excA or excB:
            out.append('exception A=%r B=%r' % (excA, excB))
            violated = violated or (type(excA) is not type(excB))
            continue
        if mode == 'perm':
            cmap = {int(k): v for k, v in kw['cidmap'].items()}
            if winners_by_name(EA) != winners_by_name(EB):
                out.append('winners %s vs %s' % (winners_by_name(EA), winners_by_name(EB)))
                violated = True
                continue
            fa, fb = rec.actions(EA)[-1]['cstate'], rec.actions(EB)[-1]['cstate']
            for ca, cb in cmap.items():
                va, vb = fa[ca].get('vote'), fb[cb].get('vote')
                if (va is None) != (vb is None) or (va is not None and str(va) != str(vb)) or (va is not None and rec.pyraw(va) != rec.pyraw(vb)):
                    out.append('final tally of %s: %s vs %s' % (ca, va, vb))
                    violated = True
            continue
        if mode == 'gq':
            p, g = kw['gq']
            geps = max(10 ** g // 2, 1)
            if not (stats[0] * 100 < geps and stats[1] > 100 * geps):
                out.append('premise does not hold concretely')
                continue
            from fractions import Fraction
            A1 = [a for a in EA.erecord['actions'] if a['tag'] != 'log']
            A2 = [a for a in EB.erecord['actions'] if a['tag'] != 'log']
            if len(A1) != len(A2) or any(a['tag'] != b['tag'] or {c: s['state'] for c, s in a['cstate'].items()} != {c: s['state'] for c, s in b['cstate'].items()} for a, b in zip(A1, A2)):
                out.append('structure differs')
                violated = True
                continue
            for a, b in zip(A1, A2):
                prs = [(s['vote'], b['cstate'][c]['vote']) for c, s in a['cstate'].items() if 'vote' in s] + [(a['quota'], b['quota'])]
                for gv, qv in prs:
                    if abs(Fraction(gv._value, 10 ** (p + g)) - Fraction(qv)) > Fraction(1, 10 ** p):
                        out.append('value differs by more than one unit: %s vs %s' % (gv, qv))
                        violated = True
            continue
        cmap = None
        if kw.get('cidmap'):
            cmap = {int(k): v for k, v in kw['cidmap'].items()}
        kind, x = compare_records(EA, EB, cidmap=cmap, ignore_msgs=bool(kw.get('ignore_msgs')), skip_logs=bool(kw.get('skip_logs')))
        if kind == 'STRUCT':
            out.append(x)
            violated = True
            continue
        bad = [c for c in x if z3.is_true(z3.simplify(c))]
        if bad:
            out.append('%d numeric field(s) differ' % len(bad))
            violated = True
            continue
        if mode in ('split', 'twice', 'tie2') or (mode == 'opts' and kw.get('renderings')):
            ra, rb = _render_all(EA), _render_all(EB)
            for k in ra:
                a_, b_ = ra[k], rb[k]
                if not kw.get('stats'):
                    # the guarded comparison statistics (maxDiff/minDiff lines of the report, 'arithmetic_report' in json) are
                    # compared by the dedicated zero-free job only
                    a_ = _re.sub(r'(\\t|\t)(maxDiff|minDiff): *\d+', '', a_)
                    b_ = _re.sub(r'(\\t|\t)(maxDiff|minDiff): *\d+', '', b_)
                if mode == 'tie2':
                    # the tie_order entries of the candidate table are the input itself
                    a_ = _re.sub(r'"tie_order": \d+', '"tie_order": _', a_)
                    b_ = _re.sub(r'"tie_order": \d+', '"tie_order": _', b_)
                if a_ != b_:
                    out.append('%s rendering differs' % k)
                    violated = True
    return dict(violated=violated, detail=out[:6])


def run_batch(spec):
    "several small explorations in one process (e.g. every support set of a few ballot lines)"
    t0 = time.time()
    tot = None
    for sub in spec['batch']:
        if time.time() - t0 > float(spec.get('budget_s', 600)):
            tot['outcome'] = 'budget'
            break
        sp = dict(spec)
        del sp['batch']
        sp.update(sub)
        sp['budget_s'] = max(5.0, float(spec.get('budget_s', 600)) - (time.time() - t0))
        r = run_job(sp)
        if tot is None:
            tot = r
            tot['spec'] = spec
            continue
        for k in ('violations', 'harness_errors'):
            for it in r[k]:
                if k == 'violations':
                    it['key'] = it['key']
                tot[k].append(it)
        for k, v in r['reach'].items():
            tot['reach'][k] = tot['reach'].get(k, 0) + v
        for k, v in r['stats'].items():
            tot['stats'][k] = tot['stats'].get(k, 0) + v
        for k, v in (r.get('path_status') or {}).items():
            tot['path_status'][k] = tot['path_status'].get(k, 0) + v
        tot['validated'] += r['validated']
        if r['outcome'] != 'complete' and tot['outcome'] == 'complete':
            tot['outcome'] = r['outcome']
        if len(tot['samples']) < 3:
            tot['samples'] += r['samples'][:1]
    tot['wall_s'] = round(time.time() - t0, 2)
    tot['spec'] = {k: v for k, v in spec.items() if k != 'batch'}
    tot['spec']['batch_size'] = len(spec['batch'])
    return tot


if __name__ == '__main__':
    spec = json.loads(sys.argv[1]) if len(sys.argv) > 1 else json.load(sys.stdin)
    out = run_batch(spec) if 'batch' in spec else run_job(spec)
    sys.stdout.write('\n@@RESULT@@' + json.dumps(out) + '\n')
