import json
import os
import sys

from harness import driver


def main(argv):
    if not argv:
        print('usage: check <Cnn> [--tier quick|thorough] | check replay <file>')
        return 3
    if argv[0] == 'selftest':
        from harness import selftest
        return selftest.main()
    if argv[0] == 'replay':
        from harness import replay
        return replay.main(argv[1:])
    prop = argv[0]
    tier = os.environ.get('VERIF_TIER', 'quick')
    if '--tier' in argv:
        tier = argv[argv.index('--tier') + 1]
    seed = int(os.environ.get('VERIF_SEED', '0') or 0)
    from props import registry
    if prop not in registry.REGISTRY:
        print('unknown property %s' % prop)
        return 3
    args = registry.REGISTRY[prop](tier)
    post = args.pop('post', None)
    rc = driver.run_check(prop, tier, seed=seed, **args)
    return rc


if __name__ == '__main__':
    sys.exit(main(sys.argv[1:]))
