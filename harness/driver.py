"""Check driver: runs the jobs of one property in parallel worker processes (each a fresh interpreter that
imports droop from /repo's current working tree), aggregates, applies the known-findings file, writes
evidence and replay files, prints VIOLATION / KNOWN-FINDING lines and chooses the exit code.

exit codes: 0 held on everything explored; 1 violation reproduced on the pristine code;
            2 inconclusive (solver unknown / budget / truncation); 3 harness error."""
import concurrent.futures
import hashlib
import json
import os
import re
import subprocess
import sys
import time

HERE = os.path.dirname(os.path.dirname(os.path.abspath(__file__)))
EVIDENCE = os.path.join(HERE, 'evidence')
FINDINGS = os.path.join(HERE, 'findings')
KNOWN = os.path.join(HERE, 'known_findings.json')

WORKERS = {
    'count': 'harness.countrun',
    'leaf': 'harness.leafrun',
    'token': 'harness.tokrun',
    'diff': 'harness.diffrun',
    'misc': 'harness.miscrun',
}


def run_worker(spec, timeout):
    mod = WORKERS[spec.get('kind', 'count')]
    env = dict(os.environ)
    env['PYTHONPATH'] = HERE
    env.setdefault('DROOP_REPO', '/repo')
    env['PYTHONDONTWRITEBYTECODE'] = '1'
    env['PYTHONHASHSEED'] = '0'
    t0 = time.time()
    try:
        p = subprocess.run([sys.executable, '-m', mod], input=json.dumps(spec), capture_output=True, text=True,
                           cwd=HERE, env=env, timeout=timeout)
    except subprocess.TimeoutExpired:
        return dict(spec=spec, outcome='budget', stats={}, violations=[], harness_errors=[], reach={}, samples=[],
                    validated=0, functions=[], wall_s=round(time.time() - t0, 1), note='worker killed at hard timeout')
    out = p.stdout
    i = out.rfind('@@RESULT@@')
    if i < 0:
        return dict(spec=spec, outcome='harness_error', stats={}, violations=[], reach={}, samples=[], validated=0,
                    functions=[], wall_s=round(time.time() - t0, 1),
                    harness_errors=[dict(why='worker produced no result (rc=%s)' % p.returncode,
                                         tb=(p.stderr or '')[-2000:])])
    return json.loads(out[i + len('@@RESULT@@'):])


def load_known():
    if os.path.exists(KNOWN):
        return json.load(open(KNOWN))
    return dict(findings=[], fixed=[])


def sig_of(prop, spec, v):
    opts = ','.join('%s=%s' % kv for kv in sorted((spec.get('opts') or {}).items()))
    extra = ''
    if spec.get('withdrawn'):
        extra += ' withdrawn=%s' % spec['withdrawn']
    if spec.get('undeclared'):
        extra += ' undeclared=%s' % spec['undeclared']
    return '%s rule=%s opts=[%s]%s key=%s' % (prop, spec.get('rule', spec.get('name', '-')), opts, extra, v['key'])


def match_known(known, prop, sig):
    for f in known.get('findings', []):
        if f['property'] == prop and re.search(f['match'], sig):
            return f
    return None


def merge_counts(a, b):
    for k, v in (b or {}).items():
        if isinstance(v, (int, float)):
            a[k] = a.get(k, 0) + v


def run_check(prop, tier, jobs, level_text, assumptions, require_reach=(), seed=0, bounds=None, extra_cov=None,
              parallel=None):
    t0 = time.time()
    os.makedirs(EVIDENCE, exist_ok=True)
    os.makedirs(FINDINGS, exist_ok=True)
    known = load_known()
    parallel = parallel or int(os.environ.get('VERIF_JOBS', '16'))
    results = []
    # longest jobs first
    order = sorted(range(len(jobs)), key=lambda i: -jobs[i].get('weight', 1))
    with concurrent.futures.ThreadPoolExecutor(max_workers=parallel) as ex:
        futs = {ex.submit(run_worker, jobs[i], jobs[i].get('budget_s', 600) * 1.5 + 60): i for i in order}
        for f in concurrent.futures.as_completed(futs):
            results.append((futs[f], f.result()))
    results.sort(key=lambda x: x[0])
    results = [r for _, r in results]

    stats = {}
    reach = {}
    functions = set()
    stubs = []
    samples = []
    validated = 0
    violations = []
    known_hits = {}
    herrs = []
    inconclusive = []
    jobrows = []
    twin_seen = [0]
    for r in results:
        merge_counts(stats, r.get('stats'))
        merge_counts(reach, r.get('reach'))
        functions.update(r.get('functions') or [])
        for s in r.get('stubs') or []:
            if s not in stubs:
                stubs.append(s)
        validated += r.get('validated', 0)
        if len(samples) < 6:
            samples.extend((r.get('samples') or [])[:1])
        spec = r['spec']
        name = spec.get('name') or '%s %s n=%s seats=%s len<=%s N<=%s%s%s%s%s' % (
            spec.get('rule'), ','.join('%s=%s' % kv for kv in sorted((spec.get('opts') or {}).items())), spec.get('n'),
            spec.get('seats'), spec.get('maxlen'), spec.get('N'),
            ' withdrawn=%s' % spec['withdrawn'] if spec.get('withdrawn') else '',
            ' undeclared=%s' % spec['undeclared'] if spec.get('undeclared') else '',
            ' +equal-rank lines %s' % spec['equal'] if spec.get('equal') else '', ' symbolic-tie-order' if spec.get('symtie') else '')
        jobrows.append(dict(job=name, outcome=r.get('outcome'), paths=(r.get('stats') or {}).get('paths'),
                            queries=(r.get('stats') or {}).get('queries'), wall_s=r.get('wall_s'),
                            path_status=r.get('path_status')))
        if r.get('outcome') != 'complete':
            if r.get('outcome') == 'harness_error':
                pass
            else:
                inconclusive.append('%s: %s' % (name, r.get('outcome')))
        ps = r.get('path_status') or {}
        if ps.get('unknown'):
            inconclusive.append('%s: %d path(s) ended in solver unknown' % (name, ps['unknown']))
        if ps.get('limit') and not spec.get('allow_truncated'):
            inconclusive.append('%s: %d truncated path(s)' % (name, ps['limit']))
        for h in r.get('harness_errors') or []:
            h.pop('subspec', None)
            herrs.append(dict(job=name, **h))
        for mm in r.get('mismatches') or []:
            herrs.append(dict(job=name, why='symbolic record differs from the pristine implementation', detail=mm))
        for v in r.get('violations') or []:
            if spec.get('twin_job') or v.get('key', '').startswith(('twin-assert-false', 'twin_false')):
                twin_seen[0] += 1        # the reachability twin came back violated, as it must
                continue
            vspec = v.pop('subspec', None) or spec      # support batches: the finding replays under its own lines
            sig = sig_of(prop, vspec, v)
            kf = match_known(known, prop, sig)
            if kf is not None:
                known_hits.setdefault(kf['id'], dict(f=kf, n=0, example=sig))['n'] += 1
                continue
            violations.append((sig, vspec, v))
    for ev in require_reach:
        if not reach.get(ev):
            inconclusive.append('reachability witness never seen: %s' % ev)
    if any(j.get('twin') or j.get('twin_job') for j in jobs) and not twin_seen[0]:
        inconclusive.append('vacuity twin (assert False) was not reported as violated')

    # report
    rc = 0
    printed = set()
    for sig, spec, v in violations:
        h = hashlib.sha1(json.dumps([sig, v.get('mvals'), v.get('tvals'), v.get('input')], sort_keys=True).encode()).hexdigest()[:10]
        path = os.path.join(FINDINGS, '%s-%s.json' % (prop, h))
        json.dump(dict(property=prop, signature=sig, spec=spec, violation=v), open(path, 'w'), indent=1)
        if sig not in printed:
            printed.add(sig)
            print('VIOLATION property=%s replay=%s' % (prop, path))
            print('   %s' % sig)
        rc = 1
    for k, d in sorted(known_hits.items()):
        print('KNOWN-FINDING: property=%s %s [%s; %d path(s), e.g. %s]' % (prop, d['f']['what'], k, d['n'], d['example']))
    if herrs:
        for h in herrs[:5]:
            print('HARNESS-ERROR %s: %s' % (h.get('job'), str(h.get('why'))[:300]))
            if h.get('tb'):
                print('   ' + h['tb'].strip().replace('\n', '\n   ')[-1500:])
            if h.get('detail'):
                print('   ' + json.dumps(h['detail'])[:1200])
        if rc == 0:
            rc = 3
    if inconclusive and rc == 0:
        rc = 2
    for s in inconclusive[:10]:
        print('INCONCLUSIVE: %s' % s)

    wall = round(time.time() - t0, 1)
    cov = dict(
        states=int(stats.get('paths', 0)),
        transitions=int(stats.get('decisions', 0)),
        traces_validated_against_impl=int(validated),
        samples=samples or [dict(note='no sample recorded')],
        exhaustive=(rc in (0, 1) and not inconclusive),
        exhaustive_within_bounds=(not inconclusive),
        functions_encoded=sorted(functions),
        bounds=bounds or {},
        jobs=jobrows,
        queries=int(stats.get('queries', 0)),
        queries_sat=int(stats.get('sat', 0)),
        queries_unsat=int(stats.get('unsat', 0)),
        unknown=int(stats.get('unknown', 0)),
        solver_s=round(stats.get('solver_s', 0.0), 2),
        truncated_paths=int(stats.get('truncated', 0)),
        reachability=reach,
        stubs=stubs,
        known_findings_matched={k: d['n'] for k, d in known_hits.items()},
        vacuity_twin_violations=twin_seen[0],
        inconclusive=inconclusive,
        harness_errors=len(herrs),
        explanation=level_text,
    )
    if extra_cov:
        cov.update(extra_cov)
    ev = dict(property_id=prop, tier=tier, seed=int(seed), level='model_checking', coverage=cov,
              assumptions=assumptions, wall_s=wall, violations=len(violations))
    json.dump(ev, open(os.path.join(EVIDENCE, '%s.json' % prop), 'w'), indent=1)
    print('%s %s: %d jobs, %d paths, %d solver queries (%d unsat, %d sat, %d unknown), solver %.1fs, validated %d paths '
          'against the implementation, wall %.1fs -> %s' % (
              prop, tier, len(jobs), cov['states'], cov['queries'], cov['queries_unsat'], cov['queries_sat'], cov['unknown'],
              cov['solver_s'], validated, wall, {0: 'HOLDS within bounds', 1: 'VIOLATION', 2: 'INCONCLUSIVE', 3: 'HARNESS ERROR'}[rc]))
    return rc
