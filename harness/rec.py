"""Accessors over an Election and its record that work both on symbolic runs (values are SymInt) and on
concrete runs of the pristine code (values are python ints): everything is returned as z3 terms."""
import z3

from symex.core import lz, SymInt


def is_rational(V):
    return V.name == 'rational'


def scale_of(E):
    "raw scale of the arithmetic (1 for rational)"
    if is_rational(E.V):
        return 1
    return E.V1._value


def raw(x):
    "raw scaled integer of a Fixed/Guarded value as a z3 term"
    return lz(x._value)


def val(x):
    "(numerator term, denominator term) of any droop value"
    if hasattr(x, '_value'):
        raise TypeError('use raw() with the scale for fixed/guarded')
    return lz(x._numerator), lz(x._denominator)


def pyraw(x):
    "python-side raw representation (SymInt / int, or [num, den] for rationals, None passthrough)"
    if x is None:
        return None
    if isinstance(x, bool):
        return x
    if hasattr(x, '_value'):
        return x._value
    if hasattr(x, '_numerator'):
        return [x._numerator, x._denominator]
    return x


def actions(E, logs=False):
    return [a for a in E.erecord['actions'] if logs or a['tag'] != 'log']


def summarize(E):
    "nested list describing the record; leaves are ints / SymInts / strings / None"
    out = []
    for A in E.erecord['actions']:
        if A['tag'] == 'log':
            continue
        cs = {}
        for cid, s in sorted(A['cstate'].items()):
            cs[str(cid)] = [s['code'], pyraw(s.get('vote')), pyraw(s.get('kf')), pyraw(s.get('quotient')),
                            s.get('pending')]
        out.append([A['tag'], A['round'], pyraw(A['quota']), pyraw(A['votes']), cs,
                    pyraw(A.get('nt_votes')), pyraw(A.get('residual')), pyraw(A.get('surplus'))])
    fin = dict(elected=sorted(c.cid for c in (E.elected or [])), defeated=sorted(c.cid for c in (E.defeated or [])))
    return [out, fin]


def evaluate(obj, model, cache=None):
    "replace every SymInt leaf by its value under the model"
    from symex.core import eval_lin
    if cache is None:
        cache = {}
    if isinstance(obj, SymInt):
        return eval_lin(obj, model, cache)
    if isinstance(obj, (list, tuple)):
        return [evaluate(x, model, cache) for x in obj]
    if isinstance(obj, dict):
        return {k: evaluate(v, model, cache) for k, v in obj.items()}
    return obj
