"""check replay <file>: re-run a recorded counterexample against the pristine code in /repo."""
import json
import os
import sys

from harness.countrun import Pristine


def main(argv):
    if not argv:
        print('usage: check replay <finding.json>')
        return 3
    f = json.load(open(argv[0]))
    spec, v = f['spec'], f['violation']
    p = Pristine()
    try:
        kind = spec.get('kind', 'count')
        if kind == 'count':
            rep = p.ask(dict(kind='monitor', spec=spec, mvals=v['mvals'], tvals=v.get('tvals'), monitors=spec['monitors']))
            print('input:\n%s' % rep.get('text'))
            print('options: %s' % dict(rule=spec['rule'], **(spec.get('opts') or {})))
            print('violated keys on the pristine code: %s; exception: %s' % (rep.get('keys'), rep.get('exc')))
            bad = bool(rep.get('keys'))
        elif kind == 'leaf':
            i = v['input']
            law = v['key'].split()[0]
            rep = p.ask(dict(kind='call', module='props.laws', function='replay', kwargs=dict(law=law, cfg=i['cfg'], ops=i['ops'])))
            print('law %s cfg %s operands %s -> %s' % (law, i['cfg'], i['ops'], rep))
            bad = rep.get('holds') is False
        else:
            rep = p.ask(dict(kind='call', module=v['replay_module'], function=v['replay_function'], kwargs=v['replay_kwargs']))
            print(json.dumps(rep)[:2000])
            bad = bool(rep.get('violated'))
    finally:
        p.close()
    print('REPRODUCED' if bad else 'not reproduced')
    return 1 if bad else 0


if __name__ == '__main__':
    sys.exit(main(sys.argv[1:]))
