"""Workers for C19 (interruption), C20 (history independence by havoc) and C17(i) (option layers)."""
import ast
import json
import os
import signal
import subprocess
import sys
import time
import traceback

import z3

from symex import core, shims
from symex.core import SymInt, lz
from harness import rec
from harness.universe import Universe, election_options
from harness.countrun import Pristine, PathTimeout, _alarm

HERE = os.path.dirname(os.path.dirname(os.path.abspath(__file__)))
INTR_LOG = '** count interrupted; this round is incomplete **'
INTR_REPORT = '** Count terminated prematurely by user interrupt **'


# ---------------------------------------------------------------------------------------------------
# C19

def structured_exits_on_count_path():
    "syntactic check: no try/finally/with in droop code reachable from count() (so raising at event j leaves the state of event j)"
    root = os.path.join(shims.REPO, 'droop')
    found = []
    for dirpath, _, files in os.walk(root):
        for f in files:
            if not f.endswith('.py'):
                continue
            p = os.path.join(dirpath, f)
            rel = os.path.relpath(p, root)
            if rel in ('profile.py', 'options.py') or rel.startswith('values' + os.sep + '__init__'):
                continue        # not executed during Election.count()
            tree = ast.parse(open(p).read())
            for node in ast.walk(tree):
                if isinstance(node, (ast.With, ast.AsyncWith)):
                    found.append('%s:%d with' % (rel, node.lineno))
                if isinstance(node, ast.Try):
                    if node.finalbody:
                        found.append('%s:%d try/finally' % (rel, node.lineno))
                    for h in node.handlers:
                        # an except clause that could swallow KeyboardInterrupt: bare except or BaseException/KeyboardInterrupt
                        names = []
                        if h.type is None:
                            names = ['<bare>']
                        else:
                            for n in ast.walk(h.type):
                                if isinstance(n, ast.Name):
                                    names.append(n.id)
                        if any(x in ('<bare>', 'BaseException', 'KeyboardInterrupt') for x in names):
                            found.append('%s:%d except %s' % (rel, node.lineno, names))
    return found


def signature(E):
    r = E.erecord
    return (len(r['actions']), bool(r.filled), tuple(sorted(k for k in r.keys())), bool(E.intr_logged))


def render_interrupted(E):
    """what an interruption in the present state produces: report/dump/json(True).  Returns list of failures.
    The three calls only append one log action and set intr_logged; both are undone afterwards."""
    fails = []
    r = E.erecord
    n0 = len(r['actions'])
    flag0 = E.intr_logged
    filled0 = r.filled
    keys0 = set(r.keys())

    def undo():
        del r['actions'][n0:]
        E.intr_logged = flag0
        if not filled0:
            for k in set(r.keys()) - keys0:
                del r[k]
            r.filled = False
    # the driver may ask for the renderings in any order: every rotation must log the marker exactly once
    for order in (('dump', 'json', 'report'), ('json', 'report', 'dump')):
        try:
            for f in order:
                getattr(E, f)(True)
            if len(r['actions']) != n0 + 1 or r['actions'][-1].get('msg') != INTR_LOG:
                fails.append('marker-not-logged-exactly-once:%s-first' % order[0])
        except core.PathAbort:
            raise
        except core.HarnessError:
            raise
        except Exception as ex:     # noqa
            fails.append('%s:%s' % (order[0], type(ex).__name__))
        undo()
    outs = {}
    for f in ('report', 'dump', 'json'):
        try:
            out = getattr(E, f)(True)
            outs[f] = out
            if not isinstance(out, str):
                fails.append('%s:not-a-string' % f)
        except core.PathAbort:
            raise
        except core.HarnessError:
            raise
        except Exception as ex:     # noqa
            fails.append('%s:%s' % (f, type(ex).__name__))
    acts_now = list(r['actions'])
    if not fails:
        if INTR_REPORT not in outs['report'] or INTR_LOG not in outs['report']:
            fails.append('report:not-marked')
        if INTR_LOG not in outs['dump']:
            fails.append('dump:not-marked')
        if INTR_LOG not in outs['json']:
            fails.append('json:not-marked')
        else:
            try:
                j = json.loads(outs['json'])
                ja = j.get('actions')
                if not isinstance(ja, list) or len(ja) != n0 + 1:
                    fails.append('json:action-count')
                elif [(a['tag'], a['msg']) for a in ja[:-1]] != [(a['tag'], a['msg']) for a in acts_now[:n0]]:
                    fails.append('json:actions-differ')
            except ValueError:
                fails.append('json:invalid')
        nrows = outs['dump'].count('\n')
        if nrows != n0 + 2:     # header + actions + interrupt log
            fails.append('dump:row-count')
        if len(acts_now) != n0 + 1 or acts_now[-1].get('msg') != INTR_LOG:
            fails.append('record:interrupt-log')
    # undo the marker (the real interrupted process ends here; the virtual one goes on counting)
    undo()
    return fails


def trace_count(E, on_state):
    "run E.count() under a line tracer; on_state(sig, E) is called at the first droop line event of every new record state"
    droop_dir = os.path.join(os.path.realpath(shims.REPO), 'droop') + os.sep
    seen = set()
    busy = [False]

    def tracer(frame, event, arg):
        if not frame.f_code.co_filename.startswith(droop_dir):
            return None
        if event == 'line' and not busy[0]:
            s = signature(E)
            if s not in seen:
                seen.add(s)
                busy[0] = True
                sys.settrace(None)
                try:
                    on_state(s, E)
                finally:
                    busy[0] = False
                    sys.settrace(tracer)
        return tracer
    sys.settrace(tracer)
    try:
        E.count()
    finally:
        sys.settrace(None)
    return len(seen)


def check_interrupted_renderings(E, n0):
    "pristine side: renderings of an interrupted election in rotated orders, each on a copy"
    import copy
    fails = []
    for order in (('dump', 'json', 'report'), ('json', 'report', 'dump')):
        E2 = copy.deepcopy(E)
        try:
            for f in order:
                getattr(E2, f)(True)
            a = E2.erecord['actions']
            if len(a) != n0 + 1 or a[-1].get('msg') != INTR_LOG:
                fails.append('marker-not-logged-exactly-once:%s-first' % order[0])
        except Exception as ex:     # noqa
            fails.append('%s:%s' % (order[0], type(ex).__name__))
    return fails


def sweep_real_interrupts(text, options, stride=1):
    """pristine side: a real KeyboardInterrupt (raised from sys.settrace) at every stride-th package line event of
    Election.count() on one concrete election; after each: the interrupt must have propagated, the three renderings must be
    produced, marked once, and contain a prefix of the uninterrupted record"""
    sys.path.insert(0, shims.REPO)
    from droop.profile import ElectionProfile
    from droop.election import Election
    droop_dir = os.path.join(os.path.realpath(shims.REPO), 'droop') + os.sep
    Ef = Election(ElectionProfile(data=text), dict(options))
    nev = [0]

    def counter(frame, event, arg):
        if not frame.f_code.co_filename.startswith(droop_dir):
            return None
        if event == 'line':
            nev[0] += 1
        return counter
    sys.settrace(counter)
    try:
        Ef.count()
    finally:
        sys.settrace(None)
    total = nev[0]
    full = json.loads(Ef.json())['actions']
    fails = []
    done = 0
    for k in range(0, total, stride):
        E = Election(ElectionProfile(data=text), dict(options))
        n = [0]
        fired = [False]

        def tracer(frame, event, arg):
            if not frame.f_code.co_filename.startswith(droop_dir):
                return None
            if event == 'line':
                if n[0] == k and not fired[0]:
                    fired[0] = True
                    n[0] += 1
                    raise KeyboardInterrupt
                n[0] += 1
            return tracer
        sys.settrace(tracer)
        interrupted = False
        try:
            E.count()
        except KeyboardInterrupt:
            interrupted = True
        except Exception as ex:     # noqa
            fails.append('event %d: count raised %s after the interrupt' % (k, type(ex).__name__))
            continue
        finally:
            sys.settrace(None)
        done += 1
        if not interrupted:
            fails.append('event %d of %d: the interrupt was swallowed, the count ran on' % (k, total))
            continue
        n0 = len(E.erecord['actions'])
        f2 = check_interrupted_renderings(E, n0)
        try:
            rep, dmp, js = E.report(True), E.dump(True), E.json(True)
            j = json.loads(js)['actions']
            if INTR_REPORT not in rep or INTR_LOG not in dmp or j[-1]['msg'] != INTR_LOG:
                f2.append('not marked')
            if j[:-1] != full[:n0]:
                f2.append('not a prefix of the uninterrupted record')
        except Exception as ex:     # noqa
            f2.append('rendering raised %s' % type(ex).__name__)
        for x in f2:
            fails.append('event %d of %d: %s' % (k, total, x))
        if len(fails) > 5:
            break
    # the command-line driver: Droop.main() catches the interrupt itself and renders report + dump + json
    try:
        import tempfile
        import Droop
        with tempfile.NamedTemporaryFile('w', suffix='.blt', delete=False) as tf:
            tf.write(text)
        for k in range(3, total, max(stride * 7, 7)):
            n = [0]
            fired = [False]

            def tracer2(frame, event, arg):
                if not frame.f_code.co_filename.startswith(droop_dir):
                    return None
                if event == 'line' and frame.f_code.co_filename.endswith(('rules' + os.sep + 'x',)) is False:
                    pass
                if event == 'line':
                    # only events inside Election.count(): the profile is parsed and the election constructed before
                    f_ = frame
                    inside = False
                    while f_ is not None:
                        if f_.f_code.co_name == 'count' and f_.f_code.co_filename.endswith('election.py'):
                            inside = True
                            break
                        f_ = f_.f_back
                    if inside:
                        if n[0] == k and not fired[0]:
                            fired[0] = True
                            n[0] += 1
                            raise KeyboardInterrupt
                        n[0] += 1
                return tracer2
            sys.settrace(tracer2)
            try:
                out = Droop.main(dict(dict(options), path=tf.name, dump=True, json=True))
            except KeyboardInterrupt:
                fails.append('event %d: Droop.main() let the interrupt escape' % k)
                continue
            finally:
                sys.settrace(None)
            done += 1
            if not fired[0]:
                continue
            if out.count(INTR_REPORT) != 1 or out.count(INTR_LOG) != 3:
                fails.append('event %d: Droop.main() output carries %d report markers and %d interrupt log lines (1 and 3 expected)' % (k, out.count(INTR_REPORT), out.count(INTR_LOG)))
            if len(fails) > 5:
                break
        os.unlink(tf.name)
    except ImportError:
        pass
    return dict(violated=bool(fails), detail=fails[:5], events=total, interrupts=done)


def interrupt_replay(text, options, sig):
    "pristine side: raise a real KeyboardInterrupt at the first droop line event whose record state is `sig`"
    sys.path.insert(0, shims.REPO)
    from droop.profile import ElectionProfile
    from droop.election import Election
    E = Election(ElectionProfile(data=text), dict(options))
    droop_dir = os.path.join(os.path.realpath(shims.REPO), 'droop') + os.sep
    sig = (sig[0], bool(sig[1]), tuple(sig[2]), bool(sig[3]))
    fired = [False]

    def tracer(frame, event, arg):
        if not frame.f_code.co_filename.startswith(droop_dir):
            return None
        if event == 'line' and not fired[0] and signature(E) == sig:
            fired[0] = True
            raise KeyboardInterrupt
        return tracer
    sys.settrace(tracer)
    interrupted = False
    try:
        E.count()
    except KeyboardInterrupt:
        interrupted = True
    finally:
        sys.settrace(None)
    if not interrupted:
        return dict(violated=False, detail='state never reached')
    n0 = len(E.erecord['actions'])
    before = [(a['tag'], a['msg']) for a in E.erecord['actions']]
    fails = []
    fails += check_interrupted_renderings(E, n0)
    outs = {}
    for f in ('report', 'dump', 'json'):
        try:
            outs[f] = getattr(E, f)(True)
        except Exception as ex:     # noqa
            fails.append('%s:%s:%s' % (f, type(ex).__name__, ex))
    if not fails:
        if INTR_REPORT not in outs['report']:
            fails.append('report:not-marked')
        if INTR_LOG not in outs['dump']:
            fails.append('dump:not-marked')
        try:
            j = json.loads(outs['json'])
            if [(a['tag'], a['msg']) for a in j['actions'][:-1]] != before or j['actions'][-1]['msg'] != INTR_LOG:
                fails.append('json:actions-differ')
        except ValueError:
            fails.append('json:invalid')
        # prefix of the uninterrupted count
        E2 = Election(ElectionProfile(data=text), dict(options))
        E2.count()
        full = [(a['tag'], a['msg']) for a in E2.erecord['actions']]
        if full[:n0] != before:
            fails.append('not-a-prefix')
        else:
            jf = json.loads(E2.json())['actions'][:n0]
            if jf != j['actions'][:n0]:
                fails.append('not-a-prefix: an action differs from the uninterrupted record')
    return dict(violated=bool(fails), detail=fails)


def run_interrupt(spec, res, pristine, budget):
    shims.install_count_shims()
    bad_syntax = structured_exits_on_count_path()
    if bad_syntax:
        res['harness_errors'].append(dict(why='count path contains constructs that break the virtual-interruption argument: %s' % bad_syntax[:5]))
        return 'harness_error'
    U = Universe(spec)
    from harness import lemmas
    lf = lemmas.check_for([lemmas.effective_options(election_options(spec))])
    if lf:
        raise core.HarnessError('; '.join(lf))
    eng = core.Engine(timeout_ms=20000, max_branches=20000)
    seen_fail = {}
    from droop.election import Election

    def pre(e):
        U.pre(e)
        e.assume(U.total() == spec['N'])        # the report header prints the ballot total with %d: keep it concrete

    def body(e):
        prof = U.profile()
        prof.nBallots = spec['N']
        E = Election(prof, election_options(spec))
        states = []

        def on_state(sig, E_):
            fails = render_interrupted(E_)
            states.append((sig, [(a['tag'], a['msg'], tuple(sorted(a.keys()))) for a in E_.erecord['actions']], fails))
        signal.signal(signal.SIGALRM, _alarm)
        signal.setitimer(signal.ITIMER_REAL, 180)
        try:
            n = trace_count(E, on_state)
        finally:
            signal.setitimer(signal.ITIMER_REAL, 0)
        res['reach']['record-states'] = res['reach'].get('record-states', 0) + n
        final = [(a['tag'], a['msg'], tuple(sorted(a.keys()))) for a in E.erecord['actions']]
        for sig, acts, fails in states:
            if final[:len(acts)] != acts:
                fails = fails + ['not-a-prefix']
            if not sig[1]:
                res['reach']['before-header'] = res['reach'].get('before-header', 0) + 1
            for f in fails:
                key = 'interrupt:%s header-filled=%s' % (f, sig[1])
                if seen_fail.get(key, 0) >= 1:
                    continue
                seen_fail[key] = 1
                m = e.model()
                conc = U.concretize(m)
                text = U.concrete_text(conc['mvals'], conc['tvals'])
                kw = dict(text=text, options=election_options(spec), sig=[sig[0], sig[1], list(sig[2]), sig[3]])
                rep = pristine.ask(dict(kind='call', module='harness.miscrun', function='interrupt_replay', kwargs=kw))
                item = dict(key=key, input=kw, replay=rep, replay_module='harness.miscrun', replay_function='interrupt_replay',
                            replay_kwargs=kw, mvals=conc['mvals'])
                if rep.get('violated'):
                    res['violations'].append(item)
                else:
                    res['harness_errors'].append(dict(why='interruption counterexample does not reproduce: %s -> %s' % (key, rep)))
        if len(res['samples']) < 2:
            m = e.models[-1] if e.models else e.model()
            conc = U.concretize(m)
            res['samples'].append(dict(blt=U.concrete_text(conc['mvals'], conc['tvals']), options=election_options(spec),
                                       record_states_evaluated=len(states)))

    outcome = eng.explore(body, pre, deadline=time.time() + budget)
    res['stats'] = dict(eng.stats)
    res['path_status'] = getattr(eng, 'path_status', {})
    return outcome


# ---------------------------------------------------------------------------------------------------
# C20

class Stale(Exception):
    pass


class Poison:
    "a value left behind by some earlier election: any use is a stale read"

    def __init__(self, name):
        object.__setattr__(self, '_n', name)

    def _boom(self, *a, **k):
        raise Stale(object.__getattribute__(self, '_n'))


for _m in ['__add__', '__radd__', '__sub__', '__rsub__', '__mul__', '__rmul__', '__floordiv__', '__rfloordiv__', '__truediv__',
           '__rtruediv__', '__mod__', '__rmod__', '__divmod__', '__rdivmod__', '__pow__', '__rpow__', '__lt__', '__le__', '__gt__',
           '__ge__', '__eq__', '__ne__', '__bool__', '__str__', '__repr__', '__format__', '__int__', '__index__', '__hash__',
           '__call__', '__len__', '__iter__', '__getitem__', '__neg__', '__abs__', '__getattr__', '__contains__']:
    setattr(Poison, _m, Poison._boom)

PREDECESSORS = [
    dict(rule='wigm', arithmetic='fixed', precision=4), dict(rule='wigm', arithmetic='fixed', precision=6, display=2),
    dict(rule='wigm', arithmetic='integer'), dict(rule='wigm'), dict(rule='wigm', arithmetic='guarded', precision=4, guard=2, display=6),
    dict(rule='wigm', arithmetic='guarded', precision=4, guard=0), dict(rule='wigm', arithmetic='guarded', precision=3, guard=3, display=1),
    dict(rule='wigm', arithmetic='rational'), dict(rule='wigm', arithmetic='rational', display=3),
    dict(rule='meek', arithmetic='fixed', precision=5), dict(rule='meek'), dict(rule='meek', arithmetic='rational', omega=2),
    dict(rule='warren', arithmetic='guarded', precision=6, guard=3, omega=3), dict(rule='qpq'), dict(rule='scotland'), dict(rule='mpls'),
    dict(rule='cfer'), dict(rule='meek-prf'), dict(rule='wigm-prf'), dict(rule='wigm', arithmetic='fixed', precision=0),
]
PRED_BLT = '3 2\n3 1 2 0\n2 2 3 0\n2 3 1 0\n1 2 0\n0\n"A"\n"B"\n"C"\n"T"\n'


def value_classes():
    import droop.values.fixed as fm
    import droop.values.guarded as gm
    import droop.values.rational as rm
    return {'Fixed': fm.Fixed, 'Guarded': gm.Guarded, 'Rational': rm.Rational}


def static_write_set():
    "AST superset: cls.x = ... / ClassName.x = ... targets anywhere in the package (reported alongside the measured set)"
    out = {}
    for dirpath, _, files in os.walk(os.path.join(shims.REPO, 'droop')):
        for f in files:
            if not f.endswith('.py'):
                continue
            tree = ast.parse(open(os.path.join(dirpath, f)).read())
            for cls in [n for n in ast.walk(tree) if isinstance(n, ast.ClassDef)]:
                for node in ast.walk(cls):
                    targets = []
                    if isinstance(node, ast.Assign):
                        targets = node.targets
                    elif isinstance(node, ast.AugAssign):
                        targets = [node.target]
                    for t in targets:
                        for tt in (t.elts if isinstance(t, ast.Tuple) else [t]):
                            if isinstance(tt, ast.Attribute) and isinstance(tt.value, ast.Name) and tt.value.id in ('cls', cls.name):
                                name = tt.attr
                                if name.startswith('__') and not name.endswith('__'):
                                    name = '_%s%s' % (cls.name.lstrip('_'), name)
                                out.setdefault(cls.name, set()).add(name)
    return {k: sorted(v) for k, v in out.items()}


def measure_write_set():
    "run the predecessor family once (concretely, real ints) and record every class/module attribute that changed"
    from droop.profile import ElectionProfile
    from droop.election import Election
    import droop
    classes = value_classes()
    mods = {m: sys.modules[m] for m in list(sys.modules) if m == 'droop' or m.startswith('droop.')}
    before_c = {cn: dict(vars(cl)) for cn, cl in classes.items()}
    before_m = {mn: {k: v for k, v in vars(m).items()} for mn, m in mods.items()}
    dyn = {cn: set() for cn in classes}
    dyn_mod = {}
    for cfg in PREDECESSORS:
        E = Election(ElectionProfile(data=PRED_BLT), dict(cfg))
        E.count()
        E.report(), E.dump(), E.json()
        for cn, cl in classes.items():
            for k, v in vars(cl).items():
                if callable(v) or isinstance(v, (classmethod, staticmethod, property)):
                    continue
                if k not in before_c[cn] or before_c[cn][k] is not v:
                    dyn[cn].add(k)
        for mn, m in mods.items():
            for k, v in vars(m).items():
                if k.startswith('__') or callable(v) or isinstance(v, type(sys)):
                    continue
                if k not in before_m[mn] or before_m[mn][k] is not v:
                    dyn_mod.setdefault(mn, set()).add(k)
    return {k: sorted(v) for k, v in dyn.items()}, {k: sorted(v) for k, v in dyn_mod.items()}


def class_containers():
    "every dict / list / set that is an attribute of a class or module of the package: process-wide mutable state"
    import inspect
    out = []
    seen = set()

    def walk(owner, oname):
        for k, v in list(vars(owner).items()):
            if isinstance(v, (dict, list, set)) and not (k.startswith('__') and k.endswith('__')):
                out.append((owner, k, v, '%s.%s' % (oname, k)))
            elif inspect.isclass(v) and getattr(v, '__module__', '').startswith('droop') and id(v) not in seen:
                seen.add(id(v))
                walk(v, '%s.%s' % (oname, k) if inspect.isclass(owner) else v.__name__)
    for mn in sorted(m for m in sys.modules if m == 'droop' or m.startswith('droop.')):
        mod = sys.modules[mn]
        if mod is None:
            continue
        for k, v in list(vars(mod).items()):
            if isinstance(v, (dict, list, set)) and not k.startswith('__'):
                out.append((mod, k, v, '%s.%s' % (mn, k)))
            elif inspect.isclass(v) and getattr(v, '__module__', '') == mn and id(v) not in seen:
                seen.add(id(v))
                walk(v, v.__name__)
    return out


def _container_sig(v):
    "identity signature of a container's contents (no comparison of the elements themselves, which may be proxies)"
    if isinstance(v, dict):
        return tuple(sorted((id(k), id(x)) for k, x in v.items()))
    if isinstance(v, list):
        return tuple(id(x) for x in v)
    return tuple(sorted(id(x) for x in v))


class StaleContainer:
    "stands in for a class-level container that an earlier count has written to: writes are accepted, any read is a stale read"

    def __init__(self, name):
        self._n = name

    def _boom(self, *a, **k):
        raise Stale(self._n)

    def _ok(self, *a, **k):
        return None


for _m in ['__getitem__', '__contains__', '__iter__', '__len__', '__bool__', 'get', 'keys', 'values', 'items', 'pop', 'popitem',
           'setdefault', 'index', 'count', 'copy', '__eq__', '__ne__', '__reversed__']:
    setattr(StaleContainer, _m, StaleContainer._boom)
for _m in ['__setitem__', '__delitem__', 'append', 'extend', 'add', 'update', 'clear', 'insert', 'remove', 'discard', 'sort']:
    setattr(StaleContainer, _m, StaleContainer._ok)


def tie_variant(text):
    "the same ballot file with the tie-break order reversed (a natural predecessor: same title, same names)"
    import re
    lines = text.split('\n')
    n = int(lines[0].split()[0])
    for i, ln in enumerate(lines):
        m = re.match(r'\[tie ([0-9 ]+)\]\s*$', ln)
        if m:
            lines[i] = '[tie %s]' % ' '.join(reversed(m.group(1).split()))
            return '\n'.join(lines)
    return '\n'.join([lines[0], '[tie %s]' % ' '.join(str(c) for c in range(n, 0, -1))] + lines[1:])


def havoc(wset, wmods):
    classes = value_classes()
    for cn, attrs in wset.items():
        for a in attrs:
            setattr(classes[cn], a, Poison('%s.%s' % (cn, a)))
    for mn, attrs in wmods.items():
        for a in attrs:
            setattr(sys.modules[mn], a, Poison('%s.%s' % (mn, a)))


def history_outputs(pred, text, options, pred_text=None):
    "pristine side, fresh interpreter per call: optional predecessor election, then the election under test"
    code = ('import sys, json; sys.path.insert(0, %r)\n'
            'from droop.profile import ElectionProfile\nfrom droop.election import Election\n'
            'pred = json.loads(%r)\n'
            'if pred is not None:\n'
            '    P = Election(ElectionProfile(data=%r), dict(pred)); P.count(); P.report(); P.dump(); P.json()\n'
            'E = Election(ElectionProfile(data=%r), json.loads(%r)); E.count()\n'
            'sys.stdout.write(json.dumps([E.report(), E.dump(), E.json()]))\n') % (shims.REPO, json.dumps(pred), pred_text or PRED_BLT, text, json.dumps(options))
    p = subprocess.run([sys.executable, '-c', code], capture_output=True, text=True, timeout=120)
    if p.returncode != 0:
        return 'ERROR: ' + p.stderr[-300:]
    return p.stdout


def history_replay(text, options):
    "search the predecessor family for a history after which the election under test renders differently"
    fresh = history_outputs(None, text, options)
    diffs = []
    for pred in PREDECESSORS:
        out = history_outputs(pred, text, options)
        if out != fresh:
            diffs.append(pred)
    # the same file with another tie-break order, and the file itself, counted first under the same options
    for ptxt, label in ((tie_variant(text), 'same file, tie order reversed'), (text, 'same file')):
        out = history_outputs(dict(options), text, options, pred_text=ptxt)
        if out != fresh:
            diffs.append(dict(predecessor=label, options=options))
    return dict(violated=bool(diffs), detail=diffs[:3])


def run_havoc(spec, res, pristine, budget):
    shims.install_count_shims()
    from droop.election import Election
    import droop.values.guarded as gm
    wset, wmods = measure_write_set()
    res['extra'] = dict(write_set=wset, module_write_set=wmods, static_superset=static_write_set())
    U = Universe(spec)
    from harness import lemmas
    lf = lemmas.check_for([lemmas.effective_options(election_options(spec))])
    if lf:
        raise core.HarnessError('; '.join(lf))
    eng = core.Engine(timeout_ms=20000, max_branches=20000)
    from harness.diffrun import compare_records
    seen = {}

    def body(e):
        # reference: the election on freshly initialised classes
        conts = class_containers()
        snap = [(_container_sig(v), (dict(v) if isinstance(v, dict) else list(v))) for _, _, v, _ in conts]
        E1 = Election(U.profile(), election_options(spec))
        E1.count()
        stats1 = (gm.Guarded.maxDiff, gm.Guarded.minDiff)
        havoc(wset, wmods)
        # class-level containers the first count has written to: what is in them is some earlier election's
        swapped = []
        for (owner, k, v, nm), (sig0, _) in zip(conts, snap):
            if _container_sig(v) != sig0:
                setattr(owner, k, StaleContainer(nm))
                swapped.append((owner, k, v))
                res['extra'].setdefault('containers_written_by_a_count', [])
                if nm not in res['extra']['containers_written_by_a_count']:
                    res['extra']['containers_written_by_a_count'].append(nm)
        key = None
        cond = None
        try:
            E2 = Election(U.profile(), election_options(spec))
            E2.count()
            # formatting state: the real __str__ / report() on concrete values of the freshly initialised class
            real_str = shims.ORIG_STR.get(E2.V)
            if real_str is not None:
                for v_ in (E2.V(0), E2.V(1), E2.V(3) / E2.V(7), E2.V(0) - E2.V(2) / E2.V(3)):
                    real_str(v_)
            if not isinstance(getattr(E2.V, 'maxDiff', 0), SymInt):
                E2.V.report()
        except Stale as ex:
            key = 'stale-read:%s' % ex
        finally:
            # put the containers back as they were before this path (no pollution from one path to the next)
            for (owner, k, v, nm), (_, old) in zip(conts, snap):
                if getattr(owner, k, None) is not v:
                    setattr(owner, k, v)
                if _container_sig(v) != _container_sig(old):
                    v.clear()
                    (v.update(old) if isinstance(v, (dict, set)) else v.extend(old))
        if key is None:
            kind, x = compare_records(E1, E2)
            if kind == 'STRUCT':
                key = 'history-dependence:' + x[:40]
            else:
                c_ = z3.Or(*x) if x else z3.BoolVal(False)
                if not z3.is_false(z3.simplify(c_)) and e.check(c_):
                    key, cond = 'history-dependence:value', c_
        res['reach']['havoc-run'] = res['reach'].get('havoc-run', 0) + 1
        if key and seen.get(key, 0) < 1:
            seen[key] = 1
            if cond is not None:
                e.check(cond)
                m = e.solver.model()
            else:
                m = e.model()
            conc = U.concretize(m)
            text = U.concrete_text(conc['mvals'], conc['tvals'])
            kw = dict(text=text, options=election_options(spec))
            rep = pristine.ask(dict(kind='call', module='harness.miscrun', function='history_replay', kwargs=kw))
            item = dict(key=key, input=kw, replay=rep, replay_module='harness.miscrun', replay_function='history_replay', replay_kwargs=kw,
                        mvals=conc['mvals'])
            if rep.get('violated'):
                res['violations'].append(item)
            else:
                res['unconfirmed'] = res.get('unconfirmed', []) + [dict(key=key, text=text)]

    outcome = eng.explore(body, U.pre, deadline=time.time() + budget)
    res['stats'] = dict(eng.stats)
    res['path_status'] = getattr(eng, 'path_status', {})
    if res.get('unconfirmed'):
        res['harness_errors'].append(dict(why='havoc hit not confirmed by any concrete predecessor (over-approximation?): %s' % res['unconfirmed'][:2]))
    return outcome


# ---------------------------------------------------------------------------------------------------
# C17 (i): option layers

def run_options(spec, res, pristine, budget):
    """four layers (force, cmd, file, default) of one option: presence enumerated (2^4), values symbolic ints;
    the real Options.update/setopt/getopt/record/unused/overrides run on them"""
    shims.import_droop()
    from droop.options import Options
    import itertools
    vf, vc, vl, vd = z3.Ints('v_force v_cmd v_file v_default')
    eng = core.Engine(timeout_ms=20000)
    seen = {}
    names = spec.get('names', ['precision', 'omega', 'zzz'])

    def body(e):
        for name in names:
            for pf, pc, pl, pd in itertools.product((0, 1), repeat=4):
                o = Options({name: SymInt(vc)} if pc else {})
                if pl:
                    o.update({name: SymInt(vl)}, file_options=True)
                declared = False
                if pd or pf:
                    # a rule declares the option: default first, possibly forced
                    if pd:
                        rv_d = o.setopt(name, default=SymInt(vd))
                        declared = True
                    if pf:
                        rv_f = o.setopt(name, default=SymInt(vf), force=True)
                        declared = True
                got = o.getopt(name)
                # expected by the documented order.  setopt(force=True) also records its value as the default when none was set
                if pf:
                    exp = vf
                elif pc:
                    exp = vc
                elif pl:
                    exp = vl
                elif pd:
                    exp = vd
                else:
                    exp = None
                res['reach']['layer-assignments'] = res['reach'].get('layer-assignments', 0) + 1
                bad = []
                if exp is None:
                    if got is not None:
                        bad.append(('value-from-nowhere', z3.BoolVal(True)))
                else:
                    if got is None:
                        bad.append(('value-lost', z3.BoolVal(True)))
                    else:
                        bad.append(('precedence', lz(got) != exp))
                # setopt() returns the effective value (the value classes configure themselves from what it returns)
                if pd:
                    exp_d = vc if pc else vl if pl else vd
                    bad.append(('setopt-return', z3.BoolVal(True) if rv_d is None else lz(rv_d) != exp_d))
                if pf:
                    bad.append(('setopt-return', z3.BoolVal(True) if rv_f is None else lz(rv_f) != vf))
                recd = o.record()
                if pc and (name not in recd['cmd'] or z3.is_false(z3.simplify(lz(recd['cmd'][name]) == vc))):
                    bad.append(('record-cmd', z3.BoolVal(True)))
                if pl and (name not in recd['file_options']):
                    bad.append(('record-file', z3.BoolVal(True)))
                if pf and name not in recd['force']:
                    bad.append(('record-force', z3.BoolVal(True)))
                if exp is not None and (name not in recd['options']):
                    bad.append(('record-effective', z3.BoolVal(True)))
                elif exp is not None:
                    bad.append(('record-effective', lz(recd['options'][name]) != exp))
                unused = o.unused()
                want_unused = (pc or pl) and not declared
                if (name in unused) != bool(want_unused):
                    bad.append(('unused-list', z3.BoolVal(True)))
                # overrides(): named iff forced and a supplied value (cmd over file) differs from the forced one
                if pf and (pc or pl):
                    sup = vc if pc else vl
                    ov = o.overrides()       # branches on the symbolic comparison
                    bad.append(('overrides-list', z3.BoolVal(name in ov) != (sup != vf)))
                elif name in o.overrides():
                    bad.append(('overrides-list', z3.BoolVal(True)))
                for k, c_ in bad:
                    key = 'option-layers:%s' % k
                    c_ = z3.simplify(c_)
                    if z3.is_false(c_) or seen.get(key):
                        continue
                    if e.check(c_):
                        seen[key] = 1
                        m = e.solver.model()
                        vals = {str(v): m.eval(v, model_completion=True).as_long() for v in (vf, vc, vl, vd)}
                        kw = dict(name=name, presence=[pf, pc, pl, pd], vals=vals)
                        rep = pristine.ask(dict(kind='call', module='harness.miscrun', function='options_replay', kwargs=kw))
                        item = dict(key=key, input=kw, replay=rep, replay_module='harness.miscrun', replay_function='options_replay',
                                    replay_kwargs=kw)
                        if rep.get('violated'):
                            res['violations'].append(item)
                        else:
                            res['harness_errors'].append(dict(why='options counterexample does not reproduce: %s %s' % (key, kw)))

    def pre(e):
        for v in (vf, vc, vl, vd):
            e.assume(v >= 0)
    outcome = eng.explore(body, pre, deadline=time.time() + budget)
    res['stats'] = dict(eng.stats)
    res['path_status'] = getattr(eng, 'path_status', {})
    return outcome


def options_replay(name, presence, vals):
    sys.path.insert(0, shims.REPO)
    from droop.options import Options
    pf, pc, pl, pd = presence
    o = Options({name: vals['v_cmd']} if pc else {})
    if pl:
        o.update({name: vals['v_file']}, file_options=True)
    declared = False
    fails = []
    if pd:
        rv = o.setopt(name, default=vals['v_default'])
        declared = True
        if rv != (vals['v_cmd'] if pc else vals['v_file'] if pl else vals['v_default']):
            fails.append('setopt(default) returned %r' % (rv,))
    if pf:
        rv = o.setopt(name, default=vals['v_force'], force=True)
        declared = True
        if rv != vals['v_force']:
            fails.append('setopt(force) returned %r' % (rv,))
    exp = vals['v_force'] if pf else vals['v_cmd'] if pc else vals['v_file'] if pl else vals['v_default'] if pd else None
    if o.getopt(name) != exp:
        fails.append('getopt %r != %r' % (o.getopt(name), exp))
    r = o.record()
    if exp is not None and r['options'].get(name) != exp:
        fails.append('record effective')
    if (name in o.unused()) != bool((pc or pl) and not declared):
        fails.append('unused')
    if pf and (pc or pl):
        sup = vals['v_cmd'] if pc else vals['v_file']
        if (name in o.overrides()) != (sup != vals['v_force']):
            fails.append('overrides')
    elif name in o.overrides():
        fails.append('overrides')
    return dict(violated=bool(fails), detail=fails)


def run_job(spec):
    t0 = time.time()
    res = dict(spec=spec, violations=[], harness_errors=[], reach={}, samples=[], validated=0, functions=[], stats={}, path_status={})
    pristine = Pristine()
    budget = float(spec.get('budget_s', 600))
    try:
        if spec['mode'] == 'interrupt':
            outcome = run_interrupt(spec, res, pristine, budget)
        elif spec['mode'] == 'sweep':
            shims.import_droop()
            outcome = 'complete'
            for text in spec['texts']:
                kw = dict(text=text, options=election_options(spec), stride=int(spec.get('stride', 1)))
                rep = pristine.ask(dict(kind='call', module='harness.miscrun', function='sweep_real_interrupts', kwargs=kw))
                if 'error' in rep:
                    res['harness_errors'].append(dict(why='sweep failed: %s' % rep['error'], tb=rep.get('tb')))
                    continue
                res['validated'] += rep.get('interrupts', 0)
                res['reach']['real-interrupts'] = res['reach'].get('real-interrupts', 0) + rep.get('interrupts', 0)
                res['stats']['paths'] = res['stats'].get('paths', 0) + 1
                res['stats']['decisions'] = res['stats'].get('decisions', 0) + rep.get('events', 0)
                if rep.get('violated'):
                    res['violations'].append(dict(key='real-interrupt:%s' % (rep['detail'][0].split(': ', 1)[1] if rep['detail'] else '?'), input=kw, replay=rep,
                                                  replay_module='harness.miscrun', replay_function='sweep_real_interrupts', replay_kwargs=kw))
        elif spec['mode'] == 'havoc':
            outcome = run_havoc(spec, res, pristine, budget)
        elif spec['mode'] == 'options':
            outcome = run_options(spec, res, pristine, budget)
        else:
            raise ValueError(spec['mode'])
    except core.HarnessError as ex:
        outcome = 'harness_error'
        res['harness_errors'].append(dict(why=str(ex), tb=traceback.format_exc()[-1500:]))
    except Exception as ex:     # noqa
        outcome = 'harness_error'
        res['harness_errors'].append(dict(why='%s: %s' % (type(ex).__name__, ex), tb=traceback.format_exc()[-1500:]))
    pristine.close()
    res['outcome'] = outcome
    res['stubs'] = list(shims.STUBS)
    res['wall_s'] = round(time.time() - t0, 2)
    return res


if __name__ == '__main__':
    spec = json.loads(sys.argv[1]) if len(sys.argv) > 1 else json.load(sys.stdin)
    out = run_job(spec)
    sys.stdout.write('\n@@RESULT@@' + json.dumps(out) + '\n')
