"""Job grids shared by the count-mode properties (DESIGN.md section 3.2, tiers)."""

FX2 = {'arithmetic': 'fixed', 'precision': 2}
G44 = {'arithmetic': 'guarded', 'precision': 4, 'guard': 4}
RAT = {'arithmetic': 'rational'}

GREGORY_STATUTORY = ['wigm-prf', 'wigm-prf-batch', 'cfer', 'cfer-batch', 'scotland', 'mpls']
ALL_RULES = ['wigm', 'wigm-prf', 'wigm-prf-batch', 'cfer', 'cfer-batch', 'scotland', 'mpls', 'qpq', 'meek', 'warren', 'meek-prf']

EQUAL_LINES = ['1=2 3', '1=2=3', '3 1=2']


def job(rule, opts, n, seats, maxlen, N, monitors, budget, **kw):
    d = dict(kind='count', rule=rule, opts=dict(opts), n=n, seats=seats, maxlen=maxlen, N=N, monitors=list(monitors),
             budget_s=budget, weight=kw.pop('weight', 1))
    d.update(kw)
    return d


def wigm_configs(tier):
    cfgs = [
        (FX2, 6), ({'arithmetic': 'integer'}, 6), (dict(FX2, integer_quota=True), 6), (dict(FX2, defeat_batch='zero'), 6),
        (G44, 5), (dict(RAT), None), (dict(RAT, integer_quota=True), None),
        (dict(FX2, display=0), 5),      # display digits below the working precision must not matter to the count
    ]
    if tier == 'thorough':
        cfgs += [({'arithmetic': 'fixed', 'precision': 4}, 6), ({}, 5), (dict(G44, integer_quota=True), 5),
                 (dict(G44, defeat_batch='zero'), 5), ({'arithmetic': 'fixed', 'precision': 1}, 6),
                 ({'arithmetic': 'guarded', 'precision': 3, 'guard': 0}, 6)]
    return cfgs


def meek_configs(tier):
    cfgs = [
        ('meek', {'arithmetic': 'fixed', 'precision': 3, 'omega': 2}, 6), ('warren', {'arithmetic': 'fixed', 'precision': 3, 'omega': 2}, 6),
        ('meek', dict(G44), 5), ('meek', {'arithmetic': 'fixed', 'precision': 3, 'omega': 2, 'defeat_batch': 'none'}, 5),
        ('warren', {'arithmetic': 'fixed', 'precision': 3, 'omega': 2, 'display': 1}, 5),
    ]
    if tier == 'thorough':
        cfgs += [('warren', dict(G44), 5), ('meek', {'arithmetic': 'fixed', 'precision': 2, 'omega': 1}, 6),
                 ('meek', {'arithmetic': 'fixed', 'precision': 3, 'omega': 3}, 6),
                 ('warren', {'arithmetic': 'fixed', 'precision': 3, 'omega': 2, 'defeat_batch': 'none'}, 6),
                 ('meek', {'arithmetic': 'guarded', 'precision': 3, 'guard': 0, 'omega': 2}, 6)]
    return cfgs


def base_grid(tier, monitors, gregory_only=False, meek_only=False, symtie=False, equal=True, rules=None, extra4=True,
              withdrawn=True, more=0):
    """the common exploration grid.  quick: U(3,3,N,N) N = 5..6, seats 1-2; a few 4-candidate jobs; one withdrawn and
    (mpls) one undeclared configuration.  thorough: larger N, all withdrawn sets, more option configurations."""
    jobs = []
    quick = tier != 'thorough'
    bump = (0 if quick else 2) + more
    B = 600 if quick else 1500

    def want(rule):
        if rules is not None and rule not in rules:
            return False
        return True

    if not meek_only:
        if want('wigm'):
            for opts, N in wigm_configs(tier):
                for seats in (1, 2):
                    if opts.get('arithmetic') == 'rational':
                        jobs.append(job('wigm', opts, 3, seats, 2, 4 if quick else 5, monitors, B, symtie=symtie, weight=3))
                    else:
                        jobs.append(job('wigm', opts, 3, seats, 3, N + bump, monitors, B, symtie=symtie,
                                        weight=4 if opts.get('arithmetic') == 'guarded' or not opts else 1))
        for rule in GREGORY_STATUTORY:
            if want(rule):
                for seats in (1, 2):
                    jobs.append(job(rule, {}, 3, seats, 3, 6 + bump + (2 if not quick else 0), monitors, B, symtie=symtie, weight=1 if quick else 8))
        if want('qpq') and not gregory_only:
            for seats in (1, 2):
                jobs.append(job('qpq', {}, 3, seats, 3, (6 if seats == 1 else 5) + (1 if not quick else 0), monitors, B,
                                symtie=symtie, weight=3))
    if not gregory_only:
        for rule, opts, N in meek_configs(tier):
            if want(rule):
                for seats in (1, 2):
                    jobs.append(job(rule, opts, 3, seats, 3, N + (1 if not quick else 0), monitors, B, symtie=symtie, weight=3))
        if equal:
            for rule in ('meek', 'warren'):
                if want(rule):
                    jobs.append(job(rule, {'arithmetic': 'fixed', 'precision': 3, 'omega': 2}, 3, 2, 3, 4 if quick else 6, monitors, B,
                                    symtie=symtie, equal=EQUAL_LINES, weight=5))
        # four candidates, three seats, every full ranking of three candidates (no shorter ones): two elected candidates
        # passing ballots to each other and on to a third
        import itertools as _it
        l3 = [' '.join(map(str, p)) for p in _it.permutations(range(1, 5), 3)]
        for rule in ('warren', 'meek'):
            if want(rule):
                jobs.append(job(rule, {'arithmetic': 'fixed', 'precision': 3, 'omega': 2}, 4, 3, 3, 4 if quick else 5, monitors, B, symtie=symtie,
                                lines=l3, weight=6))
    if not meek_only and want('scotland'):
        # ties at the third stage or later whose earlier stages order the tied candidates differently (rules 49(2)/51(2))
        import itertools as _it2
        l3s = [' '.join(map(str, p)) for p in _it2.permutations(range(1, 5), 3)] + ['1', '2', '3', '4']
        jobs.append(job('scotland', {}, 4, 2, 3, 5, monitors, B, symtie=symtie, lines=l3s, weight=6))
        if not quick:
            # thorough: the same full-ranking universe for every Gregory-family rule and QPQ, two and three seats
            for rule, opts, N4 in [('wigm', FX2, 5), ('wigm-prf', {}, 5), ('wigm-prf-batch', {}, 5), ('cfer', {}, 5), ('cfer-batch', {}, 5), ('mpls', {}, 5),
                                   ('scotland', {}, 5), ('qpq', {}, 4)]:
                if not want(rule) or (gregory_only and rule == 'qpq'):
                    continue
                for seats in (3,):      # (two seats: scotland above; guarded arithmetic does not finish this universe in budget)
                    jobs.append(job(rule, opts, 4, seats, 3, N4, monitors, B, symtie=symtie, lines=l3s, weight=25))
    if not gregory_only:
        if want('meek-prf'):
            for seats in (1, 2):
                jobs.append(job('meek-prf', {}, 3, seats, 3, (5 if quick else 6), monitors, B, symtie=symtie, weight=4))
        if want('meek'):
            jobs.append(job('meek', dict(RAT, omega=1), 3, 1, 2, 4, monitors, B, symtie=symtie, allow_truncated=True, weight=3,
                            equal=['1=2 3'] if equal else None))
    # four candidates (batch exclusions need them), short rankings
    if extra4:
        four = [('wigm-prf-batch', {}), ('cfer-batch', {}), ('mpls', {}), ('scotland', {}), ('wigm', dict(FX2, defeat_batch='zero')),
                ('meek', {'arithmetic': 'fixed', 'precision': 3, 'omega': 2})]
        if not quick:
            four += [('wigm-prf', {}), ('cfer', {}), ('warren', {'arithmetic': 'fixed', 'precision': 3, 'omega': 2}), ('meek-prf', {}),
                     ('qpq', {}), ('wigm', dict(G44))]
        for rule, opts in four:
            if not want(rule):
                continue
            if gregory_only and rule in ('meek', 'warren', 'meek-prf', 'qpq'):
                continue
            if meek_only and rule not in ('meek', 'warren', 'meek-prf'):
                continue
            slow4 = rule in ('meek', 'warren', 'meek-prf', 'qpq') or opts.get('arithmetic') == 'guarded'
            for seats in ((2, 3) if quick else (1, 2, 3)):
                n4 = 7 if quick else ((6 if seats < 3 else 5) if slow4 else 8)
                if rule == 'meek-prf' and not quick:
                    n4 = 4          # nine-digit arithmetic: the slowest rule
                jobs.append(job(rule, opts, 4, seats, 1 if quick else 2, n4, monitors, B, symtie=symtie, weight=2 if quick else 20))
        if quick and not meek_only:
            # two candidates elected in the same round and a third lifted to the quota by the first of the two transfers:
            # four candidates, three seats, rankings of length two (thorough has these for every rule, with more ballots)
            for rule, opts in [('wigm-prf', {}), ('wigm', dict(FX2)), ('cfer', {}), ('mpls', {})]:
                if want(rule):
                    jobs.append(job(rule, opts, 4, 3, 2, 5, monitors, B, symtie=symtie, weight=5))
        if want('scotland') and not meek_only:
            # three-way ties whose earlier stages differ (rules 49/51) need four candidates and transfers
            jobs.append(job('scotland', {}, 4, 2, 2, 5 if quick else 6, monitors, B, symtie=symtie, weight=4))
        if want('qpq') and not gregory_only and not meek_only:
            # the restart after an exclusion (elected -> hopeful) is only visible with four candidates and transfers
            jobs.append(job('qpq', {}, 4, 2, 2, 4 if quick else 5, monitors, B, symtie=symtie, weight=6))
    # withdrawn / undeclared
    if withdrawn:
        wj = [('wigm-prf', {}, [2], None), ('scotland', {}, [1], None), ('mpls', {}, None, [3]), ('mpls', {}, [1], [3]), ('mpls', {}, [4], [4]),
              ('meek', {'arithmetic': 'fixed', 'precision': 3, 'omega': 2}, [3], None), ('qpq', {}, [2], None),
              ('wigm', dict(FX2), [1, 3], None)]
        if not quick:
            wj += [('cfer', {}, [1], None), ('cfer-batch', {}, [3], None), ('wigm-prf-batch', {}, [1], None), ('meek-prf', {}, [2], None),
                   ('warren', {'arithmetic': 'fixed', 'precision': 3, 'omega': 2}, [1], None), ('mpls', {}, None, [2, 3]),
                   ('mpls', {}, None, [1]), ('wigm', dict(G44), [2], None)]
        for rule, opts, wd, und in wj:
            if not want(rule):
                continue
            if gregory_only and rule in ('meek', 'warren', 'meek-prf', 'qpq'):
                continue
            if meek_only and rule not in ('meek', 'warren', 'meek-prf'):
                continue
            n = 4 if (wd and len(wd) == 1 and (not und or und == wd)) else 3
            elig = n - len(wd or [])
            for seats in range(1, min(2, elig) + 1):
                jobs.append(job(rule, opts, n, seats, 2 if n == 4 else 3, 6 if n == 4 else 6 + bump, monitors, B, withdrawn=wd,
                                undeclared=und, symtie=symtie, weight=2))
    # as many eligible candidates as seats (three candidates, one withdrawn, two seats): the rules' "elect all" exits
    if withdrawn:
        full = [('wigm', dict(FX2)), ('wigm-prf', {}), ('wigm-prf-batch', {}), ('cfer', {}), ('cfer-batch', {}), ('scotland', {}), ('mpls', {}),
                ('meek', {'arithmetic': 'fixed', 'precision': 3, 'omega': 2}), ('warren', {'arithmetic': 'fixed', 'precision': 3, 'omega': 2}),
                ('meek-prf', {}), ('qpq', {})]
        for rule, opts in full:
            if not want(rule):
                continue
            if gregory_only and rule in ('meek', 'warren', 'meek-prf', 'qpq'):
                continue
            if meek_only and rule not in ('meek', 'warren', 'meek-prf'):
                continue
            jobs.append(job(rule, opts, 3, 2, 3, 5 if quick else 6, monitors, B, withdrawn=[2], symtie=symtie, weight=1))
    # zero-free supports: every listed ballot line present at least once, so E.ballots is exactly the file's ballot list
    # (a line of multiplicity 0 is otherwise still an element of the list the real code walks)
    import itertools as _it3
    from harness.universe import all_rankings
    sup_rules = [('wigm', dict(FX2, display=0)), ('scotland', {}), ('wigm-prf-batch', {}), ('meek', {'arithmetic': 'fixed', 'precision': 3, 'omega': 2})]
    if not quick:
        sup_rules += [('wigm-prf', {}), ('cfer', {}), ('cfer-batch', {}), ('mpls', {}),
                      ('warren', {'arithmetic': 'fixed', 'precision': 3, 'omega': 2}), ('qpq', {})]
    lines3 = all_rankings(3, 3)
    # supports are ORDERED (the order of the lines in the file): one and two lines in every order, three lines in
    # length-lexicographic order and reversed
    sup2 = [list(c) for r in (1, 2) for c in _it3.permutations(lines3, r)]
    sup3 = [list(c) for c in _it3.combinations(lines3, 3)]
    sup3 = sup3 + [c[::-1] for c in sup3]
    for rule, opts in sup_rules:
        if not want(rule):
            continue
        if gregory_only and rule in ('meek', 'warren', 'meek-prf', 'qpq'):
            continue
        if meek_only and rule not in ('meek', 'warren', 'meek-prf'):
            continue
        three = rule == 'scotland' or (not quick and (rule == 'meek' or opts.get('display') == 0))
        sups = sup2 + (sup3 if three else [])
        nchunk = 6 if three else 3
        Ns = 6 if quick else 7
        for k in range(nchunk):
            jobs.append(job(rule, opts, 3, 2, 3, Ns, monitors, B, symtie=symtie, supports=sups[k::nchunk], weight=6,
                            name='%s %s n=3 seats=2 zero-free ordered supports of <=%d lines (chunk %d/%d, %d supports) N<=%d%s' % (
                                rule, ','.join('%s=%s' % kv for kv in sorted(opts.items())), 3 if three else 2, k + 1, nchunk,
                                len(sups[k::nchunk]), Ns, ' symbolic-tie-order' if symtie else '')))
    return jobs


def bounds_text(jobs):
    ns = sorted(set(j['n'] for j in jobs))
    return dict(candidates=ns, ranking_length=sorted(set(j['maxlen'] for j in jobs)), ballots_max=max(j['N'] for j in jobs),
                per_line_multiplicity='0..N (B = N); 1..N in the zero-free support jobs', seats=sorted(set(j['seats'] for j in jobs)),
                rules=sorted(set(j['rule'] for j in jobs)),
                option_configurations=sorted(set('%s %s' % (j['rule'], sorted(j['opts'].items())) for j in jobs)),
                withdrawn_sets=sorted(set(str(j.get('withdrawn')) for j in jobs)),
                undeclared_sets=sorted(set(str(j.get('undeclared')) for j in jobs)),
                symbolic_tie_order=any(j.get('symtie') for j in jobs),
                per_query_timeout_ms=20000, per_path_limit_s=120, per_job_budget_s=max(j['budget_s'] for j in jobs))
