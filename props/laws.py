"""Leaf laws for the value classes (C12, C13a/b, C14).  Each law runs the REAL method on operands that are
either SymInt (symbolic, unbounded) or python ints (pristine replay) and returns a z3 Bool that must hold.
Oracles are written with multiplication only -- never with the operation under test."""
import z3

from symex.core import lz, SymInt, HarnessError

FALSE = z3.BoolVal(False)
TRUE = z3.BoolVal(True)


def _opts(d):
    from droop.options import Options
    return Options(dict(d))


def init_fixed(p, d=None):
    import droop.values.fixed as fm
    o = dict(arithmetic='fixed', precision=p)
    if d is not None:
        o['display'] = d
    fm.Fixed.initialize(_opts(o))
    return fm.Fixed


def init_guarded(p, g, d=None):
    import droop.values.guarded as gm
    o = dict(arithmetic='guarded', precision=p, guard=g)
    if d is not None:
        o['display'] = d
    gm.Guarded.initialize(_opts(o))
    return gm.Guarded


def init_rational(d=None):
    import droop.values.rational as rm
    o = dict(arithmetic='rational')
    if d is not None:
        o['display'] = d
    rm.Rational.initialize(_opts(o))
    return rm.Rational


def floor_q(r, num, den):
    "r == floor(num/den) for den != 0 (den's sign known only symbolically)"
    return z3.If(den > 0, z3.And(r * den <= num, num < (r + 1) * den),
                 z3.And(r * den >= num, num > (r + 1) * den))


def ceil_q(r, num, den):
    return z3.If(den > 0, z3.And((r - 1) * den < num, num <= r * den),
                 z3.And((r - 1) * den > num, num >= r * den))


def _is(cls, *vals):
    return all(type(v) is cls for v in vals)


# ---------------------------------------------------------------------------------------------------
# Fixed (C12).  cfg: {'p': int}.  ops: raw operands a, b, c (SymInt or int)

def _F(cfg):
    return init_fixed(cfg['p'], cfg.get('d'))


def fx_addsub(cfg, a, b, c):
    F = _F(cfg)
    x, y = F(a, True), F(b, True)
    r1, r2, r3, r4, r5 = x + y, x - y, -x, abs(x), +x
    if not _is(F, r1, r2, r3, r4, r5):
        return FALSE
    A, B = lz(a), lz(b)
    return z3.And(lz(r1._value) == A + B, lz(r2._value) == A - B, lz(r3._value) == -A,
                  lz(r4._value) == z3.If(A >= 0, A, -A), lz(r5._value) == A,
                  lz(x._value) == A, lz(y._value) == B)


def fx_int_scale(cfg, a, b, c):
    "Fixed(k) for an int k is k*10^p;  value * int is exact"
    F = _F(cfg)
    S = 10 ** cfg['p']
    k = F(a)
    r = F(b, True) * a
    if not _is(F, k, r):
        return FALSE
    return z3.And(lz(k._value) == lz(a) * S, lz(r._value) == lz(a) * lz(b))


def fx_floordiv_int(cfg, a, b, c):
    "value // int  (pre: b != 0)"
    F = _F(cfg)
    r = F(a, True) // b
    if not _is(F, r):
        return FALSE
    return floor_q(lz(r._value), lz(a), lz(b))


def fx_mul_op(cfg, a, b, c):
    F = _F(cfg)
    S = 10 ** cfg['p']
    r = F(a, True) * F(b, True)
    if not _is(F, r):
        return FALSE
    R = lz(r._value)
    return z3.And(R * S <= lz(a) * lz(b), lz(a) * lz(b) < (R + 1) * S)


def fx_div_op(cfg, a, b, c):
    "x / y and x // y  (pre: b != 0)"
    F = _F(cfg)
    S = 10 ** cfg['p']
    r1 = F(a, True) / F(b, True)
    r2 = F(a, True) // F(b, True)
    if not _is(F, r1, r2):
        return FALSE
    return z3.And(floor_q(lz(r1._value), lz(a) * S, lz(b)), lz(r1._value) == lz(r2._value))


def fx_mul(cfg, a, b, c):
    F = _F(cfg)
    S = 10 ** cfg['p']
    dn = F.mul(F(a, True), F(b, True), round='down')
    up = F.mul(F(a, True), F(b, True), round='up')
    if not _is(F, dn, up):
        return FALSE
    D, U, P = lz(dn._value), lz(up._value), lz(a) * lz(b)
    return z3.And(D * S <= P, P < (D + 1) * S, U == D + z3.If(D * S != P, 1, 0))


def fx_div(cfg, a, b, c):
    "pre: b != 0"
    F = _F(cfg)
    S = 10 ** cfg['p']
    dn = F.div(F(a, True), F(b, True), round='down')
    up = F.div(F(a, True), F(b, True), round='up')
    if not _is(F, dn, up):
        return FALSE
    D, U, P, B = lz(dn._value), lz(up._value), lz(a) * S, lz(b)
    return z3.And(floor_q(D, P, B), U == D + z3.If(D * B != P, 1, 0))


def fx_muldiv(cfg, a, b, c):
    "pre: c != 0"
    F = _F(cfg)
    dn = F.muldiv(F(a, True), F(b, True), F(c, True), round='down')
    up = F.muldiv(F(a, True), F(b, True), F(c, True), round='up')
    if not _is(F, dn, up):
        return FALSE
    D, U, P, Cc = lz(dn._value), lz(up._value), lz(a) * lz(b), lz(c)
    return z3.And(floor_q(D, P, Cc), U == D + z3.If(D * Cc != P, 1, 0))


def _b(x):
    "python truth value (real bool, SymBool or CInt-compare result) -> z3 Bool without forking"
    from symex.core import liftb
    return liftb(x)


def fx_cmp(cfg, a, b, c):
    F = _F(cfg)
    x, y = F(a, True), F(b, True)
    A, B = lz(a), lz(b)
    m = F.min([x, y, F(c, True)])
    if not _is(F, m):
        return FALSE
    M = lz(m._value)
    Cc = lz(c)
    return z3.And(_b(x == y) == (A == B), _b(x != y) == (A != B), _b(x < y) == (A < B), _b(x <= y) == (A <= B),
                  _b(x > y) == (A > B), _b(x >= y) == (A >= B),
                  M <= A, M <= B, M <= Cc, z3.Or(M == A, M == B, M == Cc))


def fx_int_args(cfg, a, b, c):
    "plain-int operands where the class accepts them: x + k, x - k, mul(x, k), mul(k, x), truth value"
    F = _F(cfg)
    S = 10 ** cfg['p']
    x = F(a, True)
    r1, r2 = x + b, x - b
    dn, up = F.mul(x, b, round='down'), F.mul(b, x, round='up')
    if not _is(F, r1, r2, dn, up):
        return FALSE
    A, B = lz(a), lz(b)
    return z3.And(lz(r1._value) == A + B * S, lz(r2._value) == A - B * S, lz(dn._value) == A * B, lz(up._value) == A * B,
                  _b(x.__bool__()) == (A != 0), lz(x._value) == A)


def fx_div_int(cfg, a, b, c):
    "div and muldiv with plain-int operands  (pre: b != 0)"
    F = _F(cfg)
    S = 10 ** cfg['p']
    x = F(a, True)
    dn, up = F.div(x, b, round='down'), F.div(x, b, round='up')
    iv = F.div(b, b, round='up')
    md = F.muldiv(x, b, b, round='up')
    if not _is(F, dn, up, iv, md):
        return FALSE
    A, B = lz(a), lz(b)
    D, U = lz(dn._value), lz(up._value)
    return z3.And(floor_q(D, A, B), U == D + z3.If(D * B != A, 1, 0), lz(iv._value) == S, lz(md._value) == A)


def fx_bad_round(cfg, a, b, c):
    "round other than up/down raises ValueError; zero divisors raise ZeroDivisionError (concrete law)"
    F = _F(cfg)
    ok = True
    for f, args in ((F.mul, (F(1), F(2))), (F.div, (F(1), F(2))), (F.muldiv, (F(1), F(2), F(3)))):
        for rnd in (None, 'nearest', 'UP', ''):
            try:
                f(*args, round=rnd)
                ok = False
            except ValueError:
                pass
    for thunk in (lambda: F(1) / F(0), lambda: F(1) // 0, lambda: F.div(F(1), F(0), round='up'),
                  lambda: F.muldiv(F(1), F(1), F(0), round='down')):
        try:
            thunk()
            ok = False
        except ZeroDivisionError:
            pass
    return z3.BoolVal(ok)


FIXED_LAWS = {
    'fx_addsub': (fx_addsub, None), 'fx_int_scale': (fx_int_scale, None), 'fx_floordiv_int': (fx_floordiv_int, 'b'),
    'fx_mul_op': (fx_mul_op, None), 'fx_div_op': (fx_div_op, 'b'), 'fx_mul': (fx_mul, None), 'fx_div': (fx_div, 'b'),
    'fx_muldiv': (fx_muldiv, 'c'), 'fx_cmp': (fx_cmp, None), 'fx_bad_round': (fx_bad_round, 'concrete'),
    'fx_int_args': (fx_int_args, None), 'fx_div_int': (fx_div_int, 'b'),
}


# ---------------------------------------------------------------------------------------------------
# Guarded (C13a, C13b).  cfg: {'p':, 'g':}

def gd_cmp_law(cfg, a, b, c):
    G = init_guarded(cfg['p'], cfg['g'], cfg.get('d'))
    geps = max(10 ** cfg['g'] // 2, 1)
    x, y = G(a, True), G(b, True)
    A, B = lz(a), lz(b)
    d = z3.If(A >= B, A - B, B - A)
    eq, ne, lt, le, gt, ge = (_b(x == y), _b(x != y), _b(x < y), _b(x <= y), _b(x > y), _b(x >= y))
    one = z3.If(eq, 1, 0) + z3.If(lt, 1, 0) + z3.If(gt, 1, 0) == 1
    return z3.And(eq == (d < geps), lt == z3.And(d >= geps, A < B), gt == z3.And(d >= geps, A > B), one,
                  ne == z3.Not(eq), le == z3.Or(lt, eq), ge == z3.Or(gt, eq),
                  lz(x._value) == A, lz(y._value) == B)


def _pair(cfg):
    "Guarded(p, 0) and Fixed(p), both initialised"
    F = init_fixed(cfg['p'], cfg.get('d'))
    G = init_guarded(cfg['p'], 0, cfg.get('d'))
    return G, F


def _same(rg, rf, G, F):
    if type(rg) is not G or type(rf) is not F:
        return FALSE
    return lz(rg._value) == lz(rf._value)


def g0_arith(cfg, a, b, c):
    "guard = 0: + - neg abs pos, * int, // int (pre b != 0), Fixed(k) scale"
    G, F = _pair(cfg)
    gx, gy, fx_, fy = G(a, True), G(b, True), F(a, True), F(b, True)
    return z3.And(_same(gx + gy, fx_ + fy, G, F), _same(gx - gy, fx_ - fy, G, F), _same(-gx, -fx_, G, F),
                  _same(abs(gx), abs(fx_), G, F), _same(+gx, +fx_, G, F), _same(gx * b, fx_ * b, G, F),
                  _same(gx // b, fx_ // b, G, F), _same(G(a), F(a), G, F))


def g0_ops(cfg, a, b, c):
    "guard = 0: * / // between values (pre: b != 0)"
    G, F = _pair(cfg)
    gx, gy = G(a, True), G(b, True)
    fx_, fy = F(a, True), F(b, True)
    return z3.And(_same(gx * gy, fx_ * fy, G, F), _same(gx / gy, fx_ / fy, G, F), _same(gx // gy, fx_ // fy, G, F))


def _g0_one(cfg, a, b, c, which, rnd):
    G, F = _pair(cfg)
    gx, gy, gz = G(a, True), G(b, True), G(c, True)
    fx_, fy, fz = F(a, True), F(b, True), F(c, True)
    if which == 'mul':
        return _same(G.mul(gx, gy, round=rnd), F.mul(fx_, fy, round=rnd), G, F)
    if which == 'div':
        return _same(G.div(gx, gy, round=rnd), F.div(fx_, fy, round=rnd), G, F)
    return _same(G.muldiv(gx, gy, gz, round=rnd), F.muldiv(fx_, fy, fz, round=rnd), G, F)


def g0_mul_up(cfg, a, b, c):
    return _g0_one(cfg, a, b, c, 'mul', 'up')


def g0_mul_down(cfg, a, b, c):
    return _g0_one(cfg, a, b, c, 'mul', 'down')


def g0_div_up(cfg, a, b, c):
    return _g0_one(cfg, a, b, c, 'div', 'up')


def g0_div_down(cfg, a, b, c):
    return _g0_one(cfg, a, b, c, 'div', 'down')


def g0_muldiv_up(cfg, a, b, c):
    return _g0_one(cfg, a, b, c, 'muldiv', 'up')


def g0_muldiv_down(cfg, a, b, c):
    return _g0_one(cfg, a, b, c, 'muldiv', 'down')


def g0_cmp(cfg, a, b, c):
    G, F = _pair(cfg)
    gx, gy, fx_, fy = G(a, True), G(b, True), F(a, True), F(b, True)
    mg = G.min([gx, gy, G(c, True)])
    mf = F.min([fx_, fy, F(c, True)])
    return z3.And(_b(gx == gy) == _b(fx_ == fy), _b(gx != gy) == _b(fx_ != fy), _b(gx < gy) == _b(fx_ < fy),
                  _b(gx <= gy) == _b(fx_ <= fy), _b(gx > gy) == _b(fx_ > fy), _b(gx >= gy) == _b(fx_ >= fy),
                  lz(mg._value) == lz(mf._value))


def g0_int_args(cfg, a, b, c):
    "guard = 0: plain-int operands of + -, mul, div, muldiv behave as in Fixed  (pre: b != 0)"
    G, F = _pair(cfg)
    gx, fx_ = G(a, True), F(a, True)
    return z3.And(_same(gx + b, fx_ + b, G, F), _same(gx - b, fx_ - b, G, F),
                  _same(G.mul(gx, b, round='up'), F.mul(fx_, b, round='up'), G, F),
                  _same(G.mul(b, gx, round='down'), F.mul(b, fx_, round='down'), G, F),
                  _same(G.div(gx, b, round='up'), F.div(fx_, b, round='up'), G, F),
                  _same(G.div(gx, b, round='down'), F.div(fx_, b, round='down'), G, F),
                  _same(G.muldiv(gx, b, b, round='up'), F.muldiv(fx_, b, b, round='up'), G, F))


def g0_flags(cfg, a, b, c):
    "class-level behaviour with zero guard digits (concrete law)"
    G, F = _pair(cfg)
    ok = (G.exact is False and F.exact is False and G.quasi_exact is False and F.quasi_exact is False
          and type(G.epsilon) is G and G.epsilon._value == 1 and F.epsilon._value == 1 and G.precision == F.precision
          and G.display == F.display)
    return z3.BoolVal(bool(ok))


GUARDED_LAWS = {
    'gd_cmp_law': (gd_cmp_law, None), 'g0_arith': (g0_arith, 'b'), 'g0_ops': (g0_ops, 'b'), 'g0_mul_up': (g0_mul_up, None), 'g0_mul_down': (g0_mul_down, None), 'g0_div_up': (g0_div_up, 'b'),
    'g0_div_down': (g0_div_down, 'b'), 'g0_muldiv_up': (g0_muldiv_up, 'c'), 'g0_muldiv_down': (g0_muldiv_down, 'c'),
    'g0_cmp': (g0_cmp, None), 'g0_flags': (g0_flags, 'concrete'), 'g0_int_args': (g0_int_args, 'b'),
}


# ---------------------------------------------------------------------------------------------------
# Rational (C12).  cfg: {'D': max denominator}; ops a, c numerators (unbounded), b, d denominators (realised by the harness)

def _R():
    return init_rational()


def _rv(r):
    return lz(r._numerator), lz(r._denominator)


def _exact(r, R, en, ed):
    "r is a Rational equal to en/ed (ed != 0), in lowest terms with positive denominator"
    if type(r) is not R:
        return FALSE
    n, d = _rv(r)
    return z3.And(d > 0, n * ed == en * d)


def rt_addsub(cfg, a, b, c, d):
    R = _R()
    x, y = R(a, b), R(c, d)
    A, B, C, D = lz(a), lz(b), lz(c), lz(d)
    absb = b if b > 0 else -b
    return z3.And(_exact(x + y, R, A * D + C * B, B * D), _exact(x - y, R, A * D - C * B, B * D),
                  _exact(-x, R, -A, B), _exact(abs(x), R, z3.If(A >= 0, A, -A), absb), _exact(+x, R, A, B),
                  lz(x._denominator) > 0, lz(y._denominator) > 0)


def rt_mul(cfg, a, b, c, d):
    R = _R()
    x, y = R(a, b), R(c, d)
    A, B, C, D = lz(a), lz(b), lz(c), lz(d)
    return z3.And(_exact(x * y, R, A * C, B * D), _exact(R.mul(x, y, round='up'), R, A * C, B * D),
                  _exact(R.mul(x, y, round='down'), R, A * C, B * D))


def rt_div(cfg, a, b, c, d):
    "pre: c != 0 (c realised)"
    R = _R()
    x, y = R(a, b), R(c, d)
    A, B, C, D = lz(a), lz(b), lz(c), lz(d)
    return z3.And(_exact(x / y, R, A * D, B * C), _exact(R.div(x, y, round='up'), R, A * D, B * C),
                  _exact(R.div(x, y), R, A * D, B * C))


def rt_muldiv(cfg, a, b, c, d):
    "muldiv(x, y, y') with y' = d/c' ... uses x=a/b, y=c/d, z=d/b (pre: c != 0): (a/b * c/d) / (d/b)"
    R = _R()
    x, y, z = R(a, b), R(c, d), R(d, b)
    A, B, C, D = lz(a), lz(b), lz(c), lz(d)
    return _exact(R.muldiv(x, y, z, round='down'), R, A * C * B, B * D * D)


def rt_cmp(cfg, a, b, c, d):
    R = _R()
    x, y = R(a, b), R(c, d)
    A, B, C, D = lz(a), lz(b), lz(c), lz(d)
    sg = 1 if (b > 0) == (d > 0) else -1        # denominators are concrete (realised) and may be negative
    L, Rr = A * D * sg, C * B * sg
    m = R.min([x, y])
    if type(m) is not R:
        return FALSE
    mn, md = _rv(m)
    sb, sd = (1 if b > 0 else -1), (1 if d > 0 else -1)
    return z3.And(_b(x == y) == (L == Rr), _b(x != y) == (L != Rr), _b(x < y) == (L < Rr), _b(x <= y) == (L <= Rr),
                  _b(x > y) == (L > Rr), _b(x >= y) == (L >= Rr), md > 0,
                  z3.Or(mn * B == A * md, mn * D == C * md), mn * B * sb <= A * md * sb, mn * D * sd <= C * md * sd)


def rt_int_mix(cfg, a, b, c, d):
    "a plain int k = c on either side of every operator: the result is a Rational and exact  (pre: c != 0, c realised)"
    R = _R()
    x, k = R(a, b), c
    A, B = lz(a), lz(b)
    parts = [_exact(k + x, R, k * B + A, B), _exact(k - x, R, k * B - A, B), _exact(k * x, R, k * A, B),
             _exact(x + k, R, A + k * B, B), _exact(x - k, R, A - k * B, B), _exact(x * k, R, k * A, B),
             _exact(x / k, R, A, B * k)]
    try:
        q = k / x
    except ZeroDivisionError:
        parts.append(A == 0)
    else:
        parts.append(z3.And(A != 0, _exact(q, R, k * B, A)))
    return z3.And(*parts)


RATIONAL_LAWS = {
    'rt_addsub': (rt_addsub, None), 'rt_mul': (rt_mul, None), 'rt_div': (rt_div, 'c'), 'rt_muldiv': (rt_muldiv, 'c'),
    'rt_cmp': (rt_cmp, None), 'rt_int_mix': (rt_int_mix, 'c'),
}


# ---------------------------------------------------------------------------------------------------
# printing (C14)

class Recorder:
    "stands in for the class's private format string: records the arguments of the final `fmt % (...)`"

    def __init__(self, fmt):
        self.fmt = fmt
        self.args = None

    def __mod__(self, args):
        self.args = args
        return '<formatted>'


def denotes(args, widths, d, x_num, x_den, text='<formatted>'):
    """the text '%d.%0Nd' % args (or '%d.%0pd_%0gd' % args) denotes round-half-up(x, d digits).
    The text is read as a decimal numeral: sign from the integer field ('%d' prints '-' iff the field is negative),
    magnitude |ip| + (fraction digits)/10^(number of fraction digits printed); a zero-width '%00d' field still
    prints one digit.  Half-up target t = floor((2*x_num*10^d + x_den) / (2*x_den)), stated without division."""
    D = 10 ** d
    ip = lz(args[0])
    if len(args) == 2:
        nd = max(d, 1)
        fr = lz(args[1])
        fr_ok = z3.And(fr >= 0, fr < 10 ** d)
    else:
        w1, w2 = widths
        n1 = max(w1, 1)
        nd = n1 + w2
        f1, f2 = lz(args[1]), lz(args[2])
        fr = f1 * 10 ** w2 + f2
        fr_ok = z3.And(f1 >= 0, f1 < 10 ** w1, f2 >= 0, f2 < 10 ** w2)
    Dt = 10 ** nd
    t = z3.FreshInt('t')
    tdef = z3.And(t * 2 * x_den <= 2 * x_num * D + x_den, 2 * x_num * D + x_den < (t + 1) * 2 * x_den)
    if text == '<formatted>':
        val = z3.If(ip >= 0, ip * Dt + fr, ip * Dt - fr)        # text value times Dt
    elif text == '-<formatted>':
        # an explicit minus sign in front of the formatted magnitude: the fields must be a magnitude, and not zero
        val = -(ip * Dt + fr)
        fr_ok = z3.And(fr_ok, ip >= 0, ip * Dt + fr > 0)
    else:
        return z3.FreshInt('t'), z3.BoolVal(True), z3.BoolVal(False)
    # a value in (-1, 0) would need a minus sign that '%d' % 0 cannot print: then val >= 0 != t < 0
    return t, tdef, z3.And(fr_ok, val * D == t * Dt)


def expected_fmt(kind, p, g, d):
    if kind == 'guarded' and d > p:
        return "%d.%0" + str(p) + "d_%0" + str(d - p) + "d"
    return "%d.%0" + str(d) + "d"


def str_fixed(cfg, v, *rest):
    import droop.values.fixed as fm
    p, d = cfg['p'], cfg['d']
    F = init_fixed(p, d)
    de = F.display
    if de != (d if 0 <= d <= p else p):
        return FALSE
    x = F(v, True)
    if p == 0:
        if isinstance(v, SymInt):
            return TRUE          # str(int) is CPython's own; exercised concretely in the replay leg
        return z3.BoolVal(str(x) == str(v))
    fmt = fm.Fixed._Fixed__dfmt
    if fmt != expected_fmt('fixed', p, 0, de):
        return FALSE
    rec_ = Recorder(fmt)
    fm.Fixed._Fixed__dfmt = rec_
    try:
        txt = fm.Fixed.__str__(x)
    finally:
        fm.Fixed._Fixed__dfmt = fmt
    if rec_.args is None or len(rec_.args) != 2:
        return FALSE
    t, tdef, ok = denotes(rec_.args, None, de, lz(v), 10 ** p, txt)
    unchanged = lz(x._value) == lz(v)
    return ('forall', t, tdef, z3.And(ok, unchanged))


def str_guarded(cfg, v, *rest):
    import droop.values.guarded as gm
    p, g, d = cfg['p'], cfg['g'], cfg['d']
    G = init_guarded(p, g, d)
    de = G.display
    if de != min(d, p + g):
        return FALSE
    x = G(v, True)
    fmt = gm.Guarded._Guarded__dfmt
    if fmt != expected_fmt('guarded', p, g, de):
        return FALSE
    rec_ = Recorder(fmt)
    gm.Guarded._Guarded__dfmt = rec_
    try:
        txt = gm.Guarded.__str__(x)
    finally:
        gm.Guarded._Guarded__dfmt = fmt
    want = 3 if de > p else 2
    if rec_.args is None or len(rec_.args) != want:
        return FALSE
    t, tdef, ok = denotes(rec_.args, (p, de - p), de, lz(v), 10 ** (p + g), txt)
    return ('forall', t, tdef, z3.And(ok, lz(x._value) == lz(v)))


def str_rational(cfg, a, b, *rest):
    import droop.values.rational as rm
    d = cfg['d']
    R = init_rational(d)
    x = R(a, b)
    n0, d0 = x._numerator, x._denominator
    fmt = rm.Rational._dfmt
    if fmt != expected_fmt('rational', 0, 0, d):
        return FALSE
    rec_ = Recorder(fmt)
    rm.Rational._dfmt = rec_
    try:
        txt = rm.Rational.__str__(x)
    finally:
        rm.Rational._dfmt = fmt
    if rec_.args is None or len(rec_.args) != 2:
        return FALSE
    t, tdef, ok = denotes(rec_.args, None, d, lz(a), lz(b), txt)
    return ('forall', t, tdef, z3.And(ok, lz(x._numerator) == lz(n0), lz(x._denominator) == lz(d0)))


STR_LAWS = {'str_fixed': (str_fixed, None), 'str_guarded': (str_guarded, None), 'str_rational': (str_rational, None)}

def twin_false(cfg, a, b, c):
    "vacuity guard: a law that is false for every operand must be reported (and reproduce)"
    F = _F(cfg)
    F(a, True)
    return FALSE


TWIN_LAWS = {'twin_false': (twin_false, None)}

ALL = {}
for _d in (FIXED_LAWS, GUARDED_LAWS, RATIONAL_LAWS, STR_LAWS, TWIN_LAWS):
    ALL.update(_d)


def text_denotes(text, d, x_num, x_den):
    "concrete oracle on the real printed text (replay leg): parse sign/int/frac and compare with half-up rounding"
    import re
    from fractions import Fraction
    m = re.match(r'^(-?)(\d+)(?:\.(\d+))?(?:_(\d+))?$', text)
    if not m:
        return False
    sign, ip, f1, f2 = m.group(1), m.group(2), m.group(3) or '', m.group(4) or ''
    frac = f1 + f2
    if d == 0 and frac in ('', '0'):
        frac = ''       # with zero display digits the classes print 'N.0'
    if len(frac) != d:
        return False
    val = Fraction(int(ip + frac or '0'), 10 ** d)
    if sign:
        val = -val
    x = Fraction(x_num, x_den)
    import math
    t = Fraction(math.floor(x * 10 ** d + Fraction(1, 2)), 10 ** d)
    if sign and val == 0:
        return False
    return val == t


def replay(law, cfg, ops):
    "pristine-side concrete evaluation: returns dict(holds=bool, detail=str)"
    import sys
    fn, pre = ALL[law]
    detail = ''
    try:
        g = fn(cfg, *ops)
    except Exception as ex:     # noqa
        return dict(holds=False, detail='raised %s: %s' % (type(ex).__name__, ex))
    if isinstance(g, tuple) and g[0] == 'forall':
        _, t, tdef, body = g
        s = z3.Solver()
        s.add(tdef, z3.Not(body))
        holds = s.check() == z3.unsat
    else:
        holds = z3.is_true(z3.simplify(g))
    # str laws: also look at the real text
    if law.startswith('str_'):
        if law == 'str_fixed':
            F = init_fixed(cfg['p'], cfg['d'])
            txt = str(F(ops[0], True))
            th = text_denotes(txt, F.display, ops[0], 10 ** cfg['p']) if cfg['p'] else txt == str(ops[0])
        elif law == 'str_guarded':
            G = init_guarded(cfg['p'], cfg['g'], cfg['d'])
            txt = str(G(ops[0], True))
            th = text_denotes(txt.replace('_', '') if False else txt, G.display, ops[0], 10 ** (cfg['p'] + cfg['g']))
        else:
            R = init_rational(cfg['d'])
            txt = str(R(ops[0], ops[1]))
            th = text_denotes(txt, cfg['d'], ops[0], ops[1])
        detail = 'printed %r' % txt
        holds = holds and th
    return dict(holds=bool(holds), detail=detail)
