"""Property monitors for count-mode runs.  A monitor never branches on symbolic values: it registers z3
conditions whose satisfiability (under the path condition) means the property is violated
(ctx.bad(key, cond)), and reachability events (ctx.reach).  The same monitor code is evaluated on the
concrete pristine run when a counterexample is replayed."""
import itertools

import z3

from harness import rec
from harness.rec import raw
from symex.core import lz

TRUE = z3.BoolVal(True)

SURPLUS_MSG = ('Surplus transferred', 'Transfer surplus')


def is_surplus_transfer(A):
    return A['tag'] == 'transfer' and A['msg'].startswith(SURPLUS_MSG)


def num(ctx, x):
    "value -> z3 term comparable across one run: raw for fixed/guarded, (num, den) pair for rational"
    if hasattr(x, '_value'):
        return lz(x._value), ctx.S
    d = x._denominator
    if not isinstance(d, int):
        # a denominator is fixed by the path condition (the exact gcd shim has forked on it) even when its term is
        # syntactically symbolic: realise it so that cross-multiplication stays linear
        from symex import core
        d = core.ENGINE.realize(lz(d))
    return lz(x._numerator), int(d)


class VOps:
    "comparisons in exact order on (num, den) pairs with positive denominators"

    @staticmethod
    def lt(a, b):
        if isinstance(a[1], int) and a[1] == b[1]:
            return a[0] < b[0]
        return a[0] * b[1] < b[0] * a[1]

    @staticmethod
    def le(a, b):
        if isinstance(a[1], int) and a[1] == b[1]:
            return a[0] <= b[0]
        return a[0] * b[1] <= b[0] * a[1]

    @staticmethod
    def eq(a, b):
        if isinstance(a[1], int) and a[1] == b[1]:
            return a[0] == b[0]
        return a[0] * b[1] == b[0] * a[1]

    @staticmethod
    def add(a, b):
        if isinstance(a[1], int) and isinstance(b[1], int):
            import math
            l = a[1] * b[1] // math.gcd(a[1], b[1])
            return (a[0] * (l // a[1]) + b[0] * (l // b[1]), l)
        return (a[0] * b[1] + b[0] * a[1], a[1] * b[1])

    @staticmethod
    def sum(vals, den1):
        acc = (z3.IntVal(0), den1)
        for v in vals:
            acc = VOps.add(acc, v)
        return acc


def guarded_geps(E):
    V = E.V
    if V.name == 'guarded':
        g = V.guard
        return max(10 ** g // 2, 1)
    return 1


# ---------------------------------------------------------------------------------------------------
# C01

def mon_C01(ctx):
    E = ctx.E
    if ctx.exc is not None:
        ctx.bad('exception:%s' % type(ctx.exc).__name__, TRUE)
        if isinstance(ctx.exc, TimeoutError):
            ctx.bad('count-does-not-terminate', TRUE)
        return
    ctx.reach('count-returned')
    electable = ctx.electable()
    want = min(ctx.seats, len(electable))
    el = set(c.cid for c in E.elected)
    de = set(c.cid for c in E.defeated)
    wd = set(c.cid for c in E.withdrawn)
    if len(el) != want:
        ctx.bad('seats:%d-of-%d' % (len(el), want), TRUE)
    if el & de:
        ctx.bad('elected-and-defeated', TRUE)
    for c in ctx.U.eligible:
        if c not in el and c not in de:
            ctx.bad('undecided', TRUE)
    if wd != set(ctx.U.withdrawn):
        ctx.bad('withdrawn-set', TRUE)
    if el & set(ctx.U.withdrawn):
        ctx.bad('withdrawn-elected', TRUE)
    if ctx.rule == 'mpls' and el & set(ctx.U.undeclared):
        ctx.bad('undeclared-elected', TRUE)
    acts = ctx.acts
    if not acts or acts[-1]['tag'] != 'end':
        ctx.bad('no-end-action', TRUE)
    for A in acts:
        for w in ctx.U.withdrawn:
            s = A['cstate'][w]
            if s['state'] != 'withdrawn' or 'vote' in s:
                ctx.bad('withdrawn-state', TRUE)
    for c in E.C:
        if c.cid in ctx.U.withdrawn:
            n_, d_ = num(ctx, c.vote)
            ctx.bad('withdrawn-credited', n_ != 0)
    if ctx.U.withdrawn:
        ctx.reach('withdrawn-present')
    if len(electable) < ctx.seats:
        ctx.reach('fewer-electable-than-seats')


# ---------------------------------------------------------------------------------------------------
# C02

def mon_C02(ctx):
    if ctx.exc is not None:
        return
    E = ctx.E
    method = ctx.method
    rational = rec.is_rational(E.V)
    S = ctx.S
    N = ctx.N
    T = 0
    dirty = False
    for A in ctx.acts:
        cs = A['cstate']
        votes = [num(ctx, s['vote']) for c, s in cs.items() if 'vote' in s]
        for v in votes:
            ctx.bad('negative-tally', v[0] < 0)
        if method == 'wigm':
            nt = num(ctx, A['nt_votes'])
            ctx.bad('negative-nontransferable', nt[0] < 0)
            if is_surplus_transfer(A):
                T += 1
                ctx.reach('surplus-transfer')
            if rational:
                tot = VOps.sum(votes + [nt], 1)
                ctx.bad('rational-total-not-exact', tot[0] != N * tot[1])
            else:
                tot = z3.Sum([v[0] for v in votes] + [nt[0]])
                ctx.bad('votes-created', tot > N * S)
                ctx.bad('votes-lost-beyond-rounding:T=%d' % min(T, 3), N * S - tot > 2 * N * T)
        elif method == 'meek':
            res = num(ctx, A['residual'])
            ctx.bad('negative-residual', res[0] < 0)
            if A['tag'] == 'round':
                dirty = False
            if ctx.rule == 'meek-prf':
                clean = A['tag'] in ('begin', 'end') or (A['tag'] in ('elect', 'tie', 'defeat') and not dirty)
            else:
                clean = A['tag'] in ('iterate', 'end')
            if rational:
                tot = VOps.sum(votes + [res], 1)
                ctx.bad('votes-created', tot[0] > N * tot[1])
                if clean or A['tag'] == 'begin':
                    ctx.bad('total-not-exact:%s' % A['tag'], tot[0] != N * tot[1])
            else:
                tot = z3.Sum([v[0] for v in votes] + [res[0]])
                ctx.bad('votes-created', tot > N * S)
                if clean:
                    ctx.reach('clean-snapshot')
                    ctx.bad('total-not-exact:%s' % A['tag'], tot != N * S)
                elif A['tag'] == 'begin':
                    # first preferences: only the split of equal-ranked ballots can truncate (one unit per share)
                    ctx.bad('votes-lost-beyond-rounding:begin', N * S - tot > ctx.n * N)
            if A['tag'] == 'defeat':
                dirty = True
        elif method == 'qpq':
            pass    # ballot-level invariant: mon_C02q (needs snapshots)


def mon_C02q(ctx):
    "QPQ: the fractional numbers of candidates elected by all ballots sum to the number elected"
    if ctx.exc is not None or ctx.method != 'qpq':
        return
    S = ctx.S
    geps = guarded_geps(ctx.E)
    last_stage_elected = 0
    for sn in ctx.snaps:
        if sn['tag'] not in ('round', 'transfer', 'end'):
            continue
        ctx.reach('qpq-stage')
        nel = sum(1 for c, (state, pend, vote, quot, kf) in sn['cands'].items() if state == 'elected')
        if sn['tag'] == 'end':
            # paragraph 2.5b: the remaining hopeful candidates are declared elected when the count ends, without any
            # ballot electing them; the ballots still account for those elected at the last stage boundary
            nel = last_stage_elected
        else:
            last_stage_elected = nel
        # weight*multiplier in Guarded: (w * m*S) // S == w*m
        tot = z3.Sum([lz(w) * exact_mult(m, S) for (idx, w, m, rk) in sn['ballots']] + [z3.IntVal(0)])
        d = tot - nel * S
        ctx.bad('qpq-elected-sum:%s' % sn['tag'], z3.Or(d >= geps, -d >= geps))
        for (idx, w, m, rk) in sn['ballots']:
            ctx.bad('qpq-negative-weight', lz(w) < 0)


mon_C02q.needs_snaps = True


def exact_mult(m_raw, S):
    "multiplier raw value (m*S) -> m as a z3 term"
    return lz(m_raw // S)


# ---------------------------------------------------------------------------------------------------
# C04

def _cmpmode(ctx):
    "how 'reaches the quota' is read in this arithmetic: ('ge'|'gt', geps)"
    V = ctx.E.V
    if V.name == 'guarded' and V.guard > 0:
        return 'gt', guarded_geps(ctx.E)
    if V.name == 'rational':
        return 'gt', 0
    return 'ge', 1


def reaches_quota(ctx, v, q):
    "z3 condition: tally v (pair) reaches quota q (pair) in the arithmetic's own order"
    mode, geps = _cmpmode(ctx)
    if ctx.E.V.name == 'rational':
        return VOps.lt(q, v)
    if mode == 'gt':            # Guarded '>' : v - q >= geps
        return v[0] - q[0] >= geps
    return v[0] >= q[0]


def quota_formula_bad(ctx, q, total, key):
    """q (pair) must be the prescribed quota for `total` votes/ballots.
    total: ('ballots', N term) or ('raw', raw votes term) or ('rat', (num, den))"""
    E = ctx.E
    V = E.V
    k = ctx.seats + 1
    S = ctx.S
    integer_quota = ctx.rule in ('scotland', 'mpls') or (ctx.rule == 'wigm' and ctx.opts.get('integer_quota') in (True, 'true'))
    if integer_quota:
        N = total[1]
        if V.name == 'rational':
            ctx.bad(key, z3.Not(z3.And(q[1] == 1, (q[0] - 1) * k <= N, N < q[0] * k)))
        else:
            ctx.bad(key, z3.Not(z3.And(q[0] % S == 0, (q[0] / S - 1) * k <= N, N < (q[0] / S) * k)))
        return
    if V.name == 'rational':
        t = (total[1], 1) if total[0] == 'ballots' else total[1]
        ctx.bad(key, q[0] * k * t[1] != t[0] * q[1])
        return
    T = total[1] * S if total[0] == 'ballots' else total[1]
    if V.exact:     # guarded, guard > 0: truncated quotient, no epsilon
        ctx.bad(key, z3.Not(z3.And(q[0] * k <= T, T < (q[0] + 1) * k)))
    else:           # fixed / integer / guard=0: truncated quotient plus one unit
        ctx.bad(key, z3.Not(z3.And((q[0] - 1) * k <= T, T < q[0] * k)))


def mon_C04(ctx):
    if ctx.exc is not None:
        return
    E = ctx.E
    method = ctx.method
    acts = ctx.acts
    if method == 'wigm':
        for A in acts:
            quota_formula_bad(ctx, num(ctx, A['quota']), ('ballots', ctx.N), 'quota-formula')
        # record-level quota equals the one reported in actions
        ctx.reach('gregory-quota-checked')
    elif method == 'meek':
        dirty = False
        for A in acts:
            if A['tag'] == 'round':
                dirty = False
            if A['tag'] == 'begin':
                quota_formula_bad(ctx, num(ctx, A['quota']), ('ballots', ctx.N), 'quota-formula:begin')
            else:
                if ctx.rule == 'meek-prf':
                    clean = A['tag'] in ('elect', 'tie', 'defeat') and not dirty
                else:
                    clean = A['tag'] == 'iterate'
                if clean:
                    ctx.reach('meek-quota-checked')
                    v = num(ctx, A['votes'])
                    tot = ('rat', v) if E.V.name == 'rational' else ('raw', v[0])
                    quota_formula_bad(ctx, num(ctx, A['quota']), tot, 'quota-formula:%s' % A['tag'])
            if A['tag'] == 'defeat':
                dirty = True
    # second sentence: nobody holding a quota is excluded or passed over
    i = 0
    while i < len(acts):
        A = acts[i]
        if A['tag'] == 'defeat' and i > 0:
            j = i
            while j < len(acts) and acts[j]['tag'] == 'defeat':
                j += 1
            ref = acts[i - 1]                       # snapshot before the run of exclusions
            rcs = ref['cstate']
            nel = sum(1 for s in rcs.values() if s['state'] == 'elected')
            newly = [c for c in rcs if rcs[c]['state'] == 'hopeful' and acts[j - 1]['cstate'][c]['state'] == 'defeated']
            if nel < ctx.seats:                     # not the end-of-count clean-up
                ctx.reach('exclusion-checked')
                if method == 'qpq':
                    cs = A['cstate']
                    q = num(ctx, A['quota'])
                    for c, s in cs.items():
                        if s['state'] == 'hopeful' or c in newly:
                            ctx.bad('excluded-while-quotient-exceeds-quota', reaches_quota(ctx, num(ctx, s['quotient']), q))
                else:
                    q = num(ctx, ref['quota'])
                    for d in newly:
                        if ctx.rule == 'mpls' and d in ctx.U.undeclared:
                            continue
                        ctx.bad('excluded-while-holding-quota', reaches_quota(ctx, num(ctx, rcs[d]['vote']), q))
                    if ctx.rule != 'mpls':
                        for c, s in rcs.items():
                            if s['state'] == 'hopeful' and c not in newly:
                                ctx.bad('hopeful-with-quota-passed-over-at-exclusion',
                                        reaches_quota(ctx, num(ctx, s['vote']), q))
            i = j
            continue
        if A['tag'] == 'unpend' and i > 0 and ctx.rule in ('wigm', 'wigm-prf', 'wigm-prf-batch', 'scotland'):
            ref = acts[i - 1]
            q = num(ctx, ref['quota'])
            ctx.reach('surplus-choice-checked')
            for c, s in ref['cstate'].items():
                if s['state'] == 'hopeful':
                    ctx.bad('hopeful-with-quota-passed-over-at-transfer', reaches_quota(ctx, num(ctx, s['vote']), q))
        i += 1
    # whoever is declared elected by the election step has reached the quota (the end-of-count clean-up elects the rest)
    if method in ('wigm', 'meek'):
        for i, A in enumerate(acts):
            if A['tag'] != 'elect' or i == 0:
                continue
            if any(x in A['msg'] for x in ('remaining', 'Elect all', 'Elect pending')):
                continue
            ref = acts[i - 1]
            newly = [c for c, s_ in A['cstate'].items() if s_['state'] == 'elected' and ref['cstate'][c]['state'] == 'hopeful']
            for c in newly:
                ctx.reach('election-checked')
                # tallies do not change between the snapshot before the election step and the 'elect' action itself
                v = num(ctx, A['cstate'][c]['vote'])
                ctx.bad('elected-without-reaching-the-quota', z3.Not(reaches_quota(ctx, v, num(ctx, A['quota']))))
    # nobody defeated holds a quota in the final snapshot (Minneapolis final-round losers keep their votes but are below it too)
    if acts and method == 'wigm':
        fin = acts[-1]
        q = num(ctx, fin['quota'])
        for c, s in fin['cstate'].items():
            if s['state'] == 'defeated' and not (ctx.rule == 'mpls' and c in ctx.U.undeclared):
                ctx.bad('defeated-holding-quota-at-end', reaches_quota(ctx, num(ctx, s['vote']), q))


def mon_C04q(ctx):
    "QPQ paragraph 2.4: quota = va / (1 + s - tx), with va and tx recomputed from the ballots at each stage"
    if ctx.exc is not None or ctx.method != 'qpq':
        return
    S = ctx.S
    for sn in ctx.snaps:
        if sn['tag'] not in ('elect', 'defeat') or 'remaining' in sn['msg']:
            continue        # (the end-of-count clean-up does not recompute the quota)
        # active ballots: those standing with a candidate who was hopeful when the quota was computed (before this action's
        # status change): the ballot's current top is hopeful now, or is the candidate elected / excluded by this very action
        cs = sn['cands']
        va = z3.IntVal(0)
        tx = z3.IntVal(0)
        for (idx, w, m, rk) in sn['ballots']:
            mm = mult_of(m, S)
            if idx < len(rk):
                va = va + mm * S
            else:
                tx = tx + lz(w) * mm
        d = (1 + ctx.seats) * S - tx
        q = lz(sn['quota'])
        ctx.reach('qpq-quota-checked')
        # q = floor(va * S / d)   (guarded division), stated without division
        ctx.bad('qpq-quota-formula', z3.Not(z3.And(q * d <= va * S, va * S < (q + 1) * d)))


mon_C04q.needs_snaps = True


# ---------------------------------------------------------------------------------------------------
# C05

def mon_C05(ctx):
    if ctx.exc is not None:
        return
    E = ctx.E
    if ctx.U.undeclared and ctx.rule == 'mpls':
        return
    if E.V.name == 'integer' and ctx.seats > 1:
        ctx.reach('skipped-integer-multiseat')
        return
    acts = ctx.acts
    first = [a for a in acts if a['tag'] in ('begin', 'count')]
    if not first:
        ctx.bad('no-initial-quota', TRUE)
        return
    q0 = num(ctx, first[0]['quota'])
    el = set(c.cid for c in E.elected)
    n = ctx.n
    S = ctx.S
    lines = ctx.U.lines
    wd = set(ctx.U.withdrawn)
    cands = [c for c in range(1, n + 1) if c not in wd]
    rankings = []
    for i, ln in enumerate(lines):
        if '=' in ln:
            rankings.append(None)       # equal-rank lines never count toward a solid coalition here
            continue
        r = [int(x) for x in ln.split() if int(x) not in wd]
        rankings.append(r)
    conds = []
    for k in range(1, len(cands)):
        for Sset in itertools.combinations(cands, k):
            Sset = set(Sset)
            solid = [ctx.ms[i] for i, r in enumerate(rankings) if r is not None and i in ctx.U.kept and
                     len(r) >= len(Sset) and set(r[:len(Sset)]) == Sset]
            if not solid:
                continue
            M = z3.Sum(solid)
            for kk in range(1, ctx.seats + 1):
                need = min(kk, len(Sset))
                if len(el & Sset) < need:
                    allowance = 2 * ctx.N * n
                    if E.V.name == 'rational':
                        # M > kk*q0 (+0 allowance: exact arithmetic)
                        conds.append(M * q0[1] > kk * q0[0])
                    else:
                        conds.append(M * S > kk * q0[0] + allowance)
    ctx.reach('coalitions-checked')
    if conds:
        stable = any(a['tag'] == 'log' and a['msg'].startswith('Stable state detected') for a in E.erecord['actions'])
        ctx.bad('solid-coalition-underrepresented' + (':after-stable-state-exit' if stable else ''), z3.Or(*conds))


# ---------------------------------------------------------------------------------------------------
# C09

_OK = {('H', 'H'), ('H', 'e'), ('H', 'E'), ('H', 'D'), ('e', 'e'), ('e', 'E'), ('E', 'E'), ('D', 'D'), ('W', 'W')}


def mon_C09(ctx):
    E = ctx.E
    acts = ctx.acts
    if ctx.exc is not None and not (acts and acts[-1]['tag'] == 'end'):
        return      # the count did not finish (C01's subject); a failed post-count assertion leaves a complete history to walk
    prev = None
    electable = len(ctx.electable())
    want = min(ctx.seats, electable)
    defeat_round = None
    for A in acts:
        cs = A['cstate']
        nel = sum(1 for s in cs.values() if s['state'] == 'elected')
        nhop = sum(1 for c, s in cs.items() if s['state'] == 'hopeful' and not (ctx.rule == 'mpls' and c in ctx.U.undeclared))
        if nel > ctx.seats:
            ctx.bad('elected-exceed-seats', TRUE)
        if A['tag'] == 'defeat' and nel + nhop < want:
            ctx.bad('exclusion-leaves-too-few', TRUE)
        if prev is not None:
            if A['round'] < prev['round']:
                ctx.bad('round-decreased', TRUE)
            for c in cs:
                a, b = prev['cstate'][c]['code'], cs[c]['code']
                if (a, b) in _OK:
                    continue
                if ctx.rule == 'qpq' and (a, b) == ('E', 'H') and defeat_round is not None and A['round'] == defeat_round + 1:
                    ctx.reach('qpq-restart')
                    continue
                ctx.bad('status-%s-to-%s' % (a, b), TRUE)
        if A['tag'] == 'defeat':
            defeat_round = A['round']
        prev = A
    ctx.reach('history-walked')


# ---------------------------------------------------------------------------------------------------
# helpers for ballot-level monitors

def cval(x):
    "concrete value of something the path condition has pinned down (weights, divisor tallies): int"
    from symex import core
    if isinstance(x, int):
        return x
    return core.ENGINE.realize(lz(x)) if core.ENGINE is not None and not z3.is_int_value(z3.simplify(lz(x))) else z3.simplify(lz(x)).as_long()


def pairv(x, S):
    "snapshot raw value (int/SymInt, or [num, den] for rational) -> (num term, den int)"
    if isinstance(x, list):
        return lz(x[0]), cval(x[1])
    return lz(x), S


def a_eq(ctx, a, b):
    "a == b in the arithmetic's own sense (pairs with the same integer denominator for fixed/guarded)"
    if ctx.E.V.name == 'guarded' and ctx.E.V.guard > 0:
        g = guarded_geps(ctx.E)
        d = a[0] - b[0]
        return z3.And(d < g, -d < g)
    return VOps.eq(a, b)


def a_lt(ctx, a, b):
    if ctx.E.V.name == 'guarded' and ctx.E.V.guard > 0:
        g = guarded_geps(ctx.E)
        return b[0] - a[0] >= g
    return VOps.lt(a, b)


def a_le(ctx, a, b):
    return z3.Not(a_lt(ctx, b, a))


def name2cid(ctx):
    return {c.name: c.cid for c in ctx.E.C}


def mult_of(m_raw, S):
    "python-side multiplier raw -> z3 term of the integer multiplier"
    if isinstance(m_raw, list):
        return lz(m_raw[0])         # rational: numerator m, denominator 1
    return exact_mult(m_raw, S)


# ---------------------------------------------------------------------------------------------------
# C06

QUIESCENT = ('round', 'transfer', 'end', 'count')


def mon_C06(ctx):
    if ctx.exc is not None or ctx.method != 'wigm':
        return
    from fractions import Fraction
    S = ctx.S
    rational = rec.is_rational(ctx.E.V)
    n2c = name2cid(ctx)
    prev = None
    PW = None
    for sn in ctx.snaps:
        tag, msg = sn['tag'], sn['msg']
        bs = sn['ballots']
        cs = sn['cands']
        q = pairv(sn['quota'], S)
        # ballot values are pinned down by the path condition (each was realised when it was multiplied by its
        # multiplier): work with their concrete values
        W = []
        for (idx, w, m, rk) in bs:
            if isinstance(w, list):
                W.append(Fraction(cval(w[0]), cval(w[1])))
            else:
                W.append(Fraction(cval(w), S))
        for w in W:
            if w < 0 or w > 1:
                ctx.bad('weight-out-of-range', TRUE)
        if prev is not None:
            for i, ((idx, w, m, rk), (pidx, pw, pm, prk)) in enumerate(zip(bs, prev['ballots'])):
                if W[i] > PW[i]:
                    ctx.bad('weight-increased', TRUE)
                if idx < pidx:
                    ctx.bad('ballot-moved-backwards', TRUE)
        if tag in QUIESCENT:
            ctx.reach('quiescent-point')
            for cid, (state, pending, vote, quot, kf) in cs.items():
                if state == 'hopeful' or (state == 'elected' and pending):
                    den = 1
                    for i, (idx, w, m, rk) in enumerate(bs):
                        if idx < len(rk) and rk[idx] == cid:
                            den = den * W[i].denominator // __import__('math').gcd(den, W[i].denominator)
                    terms = [z3.IntVal(0)]
                    for i, (idx, w, m, rk) in enumerate(bs):
                        if idx < len(rk) and rk[idx] == cid and W[i] != 0:
                            terms.append(mult_of(m, S) * int(W[i] * den))
                    v = pairv(vote, S)
                    # vote/vden == sum/den
                    ctx.bad('tally-differs-from-ballot-values:%s' % tag, v[0] * den != z3.Sum(terms) * v[1])
            for i, (idx, w, m, rk) in enumerate(bs):
                for j in range(min(idx, len(rk))):
                    if cs[rk[j]][0] == 'hopeful':
                        ctx.bad('ballot-skipped-a-hopeful-candidate', TRUE)
                if tag != 'end' and idx < len(rk) and cs[rk[idx]][0] == 'defeated' and W[i] != 0:
                    if ctx.rule == 'mpls':
                        continue    # documented: ballots of candidates defeated in the final round are not transferred
                    ctx.bad('ballot-rests-on-defeated-candidate:%s' % tag, mult_of(m, S) != 0)
        if prev is not None and tag == 'transfer' and msg.startswith(SURPLUS_MSG):
            ctx.reach('surplus-transfer-checked')
            nm = msg.split(': ', 1)[1].rsplit(' (', 1)[0]
            c0 = n2c.get(nm)
            if c0 is None:
                ctx.bad('surplus-transfer-names-nobody', TRUE)
            else:
                pv = pairv(prev['cands'][c0][2], S)
                v = Fraction(cval(pv[0]), pv[1])
                nv = pairv(cs[c0][2], S)
                ctx.bad('elected-does-not-keep-quota', z3.Not(VOps.eq(nv, q)))
                for i, ((idx, w, m, rk), (pidx, pw, pm, prk)) in enumerate(zip(bs, prev['ballots'])):
                    on_c0 = pidx < len(prk) and prk[pidx] == c0
                    if not on_c0:
                        if W[i] != PW[i]:
                            ctx.bad('surplus-transfer-touched-other-ballot', TRUE)
                        if idx != pidx:
                            ctx.bad('surplus-transfer-moved-other-ballot', TRUE)
                        continue
                    if rational:
                        # exact: w' = w * (v - q) / v   <=>   (w - w') * v == w * q,  q = qn/qd
                        lhs = (PW[i] - W[i]) * v          # Fraction
                        rhs = PW[i]
                        ctx.bad('transfer-value-not-exact', q[0] * rhs.numerator * lhs.denominator != lhs.numerator * rhs.denominator * q[1])
                    else:
                        wn, pwn, vn = int(W[i] * S), int(PW[i] * S), int(v * S)
                        sn_ = vn - q[0]                    # surplus, raw (symbolic through the quota)
                        # w' v <= w s  (never rounded up)   and   w s < (w' + 2) v  (at most the two truncations)
                        ctx.bad('transfer-value-rounded-up', wn * vn > pwn * sn_)
                        ctx.bad('transfer-value-too-small', pwn * sn_ >= (wn + 2) * vn)
                        # to the last digit: old value times surplus over tally, truncated once (fused) or after each of
                        # the two operations (multiply, then divide) -- the two forms the rules prescribe
                        prod = pwn * sn_
                        if ctx.rule == 'mpls':
                            # 167.20: surplus fraction (surplus / votes, truncated) times the current value, truncated
                            frac = (sn_ * S) / z3.IntVal(vn)
                            ctx.bad('transfer-value-not-as-prescribed', wn != (frac * pwn) / z3.IntVal(S))
                        else:
                            one_step = prod / z3.IntVal(vn)
                            two_step = ((prod / z3.IntVal(S)) * S) / z3.IntVal(vn)
                            ctx.bad('transfer-value-not-as-prescribed', z3.And(wn != one_step, wn != two_step))
        if prev is not None and tag == 'transfer' and not msg.startswith(SURPLUS_MSG):
            ctx.reach('exclusion-transfer-checked')
            for i in range(len(bs)):
                if W[i] != PW[i]:
                    ctx.bad('exclusion-changed-a-ballot-value', TRUE)
        prev = sn
        PW = W


mon_C06.needs_snaps = True


# ---------------------------------------------------------------------------------------------------
# C07

def _tie_names(msg):
    names = msg[msg.index('[') + 1:msg.rindex(']')].split(', ')
    chosen = msg.split('-> ')[-1]
    return names, chosen


def mon_C07(ctx):
    if ctx.exc is not None:
        return
    E = ctx.E
    acts = ctx.acts
    method = ctx.method
    n2c = name2cid(ctx)
    seats = ctx.seats
    und = set(ctx.U.undeclared) if ctx.rule == 'mpls' else set()
    ts = ctx.ts
    if ts is None:
        tr = {c.cid: z3.IntVal(c.tieOrder) for c in E.C}
    else:
        tr = {cid: ts[cid - 1] for cid in range(1, ctx.n + 1)}

    def key_of(s):
        "the quantity a rule ranks candidates by"
        return num(ctx, s['quotient']) if method == 'qpq' else num(ctx, s['vote'])

    # --- ties: chosen has the minimum rank among those named
    for i, A in enumerate(acts):
        if A['tag'] != 'tie':
            continue
        ctx.reach('tie')
        names, chosen = _tie_names(A['msg'])
        if chosen not in names or any(nm not in n2c for nm in names):
            ctx.bad('tie-message-inconsistent', TRUE)
            continue
        if ctx.rule == 'scotland':
            # rules 49(2)/51(2): the most recent earlier stage at which one of the tied candidates alone had the fewest
            # (exclusion) or the most (surplus) votes decides; only if no stage does is the tie broken by lot (declared order)
            lowest = 'defeat' in A['msg']
            T = [n2c[nm] for nm in names]
            x = n2c[chosen]
            stages = [B for B in acts[:i] if B['tag'] == 'round']
            def uniq(B, c):
                vc = num(ctx, B['cstate'][c]['vote'])
                return z3.And([(a_lt(ctx, vc, num(ctx, B['cstate'][d]['vote'])) if lowest else a_lt(ctx, num(ctx, B['cstate'][d]['vote']), vc))
                               for d in T if d != c])
            decided = [z3.Or([uniq(B, c) for c in T]) for B in stages]
            alts = []
            for k in range(len(stages)):
                later_undecided = z3.And([z3.Not(decided[j]) for j in range(k + 1, len(stages))] + [TRUE])
                alts.append(z3.And(uniq(stages[k], x), later_undecided))
            by_stage = z3.Or(alts + [z3.BoolVal(False)])
            none_decides = z3.And([z3.Not(dd) for dd in decided] + [TRUE])
            by_lot = z3.And(none_decides, z3.And([tr[x] < tr[d] for d in T if d != x] + [TRUE]))
            if 'prior stage' in A['msg']:
                ctx.reach('tie-by-prior-stage')
                ctx.bad('scottish-tie-not-decided-by-most-recent-unequal-stage', z3.Not(by_stage))
            else:
                ctx.bad('scottish-tie-by-lot-although-a-stage-decides-or-wrong-order', z3.Not(by_lot))
            continue
        for nm in names:
            if nm != chosen:
                ctx.bad('tie-not-resolved-by-declared-order', tr[n2c[nm]] < tr[n2c[chosen]])
    # --- exclusions
    i = 0
    while i < len(acts):
        if acts[i]['tag'] != 'defeat' or i == 0:
            i += 1
            continue
        j = i
        while j < len(acts) and acts[j]['tag'] == 'defeat':
            j += 1
        ref = acts[i - 1]
        tie_before = ref['tag'] == 'tie'
        rcs = ref['cstate']
        cs = acts[j - 1]['cstate'] if method != 'qpq' else acts[i]['cstate']
        if method == 'qpq':
            rcs = acts[i]['cstate']     # quotients are computed after the 'round' snapshot; the defeat snapshot carries them
            grp = [c for c in rcs if rcs[c]['state'] == 'defeated' and ref['cstate'][c]['state'] == 'hopeful']
            hop = [c for c in rcs if rcs[c]['state'] == 'hopeful'] + grp
        else:
            grp = [c for c in rcs if rcs[c]['state'] == 'hopeful' and acts[j - 1]['cstate'][c]['state'] == 'defeated']
            hop = [c for c in rcs if rcs[c]['state'] == 'hopeful']
        nel = sum(1 for s in ref['cstate'].values() if s['state'] == 'elected')
        cleanup = nel >= seats
        g_und = [c for c in grp if c in und]
        g2 = [c for c in grp if c not in und]
        if not cleanup and g2:
            rest = [c for c in hop if c not in grp]
            q = num(ctx, ref['quota'])
            if method == 'wigm':
                pend = [s for c, s in rcs.items() if (s['state'] == 'elected' and s.get('pending')) or
                        (ctx.rule == 'mpls' and s['state'] == 'hopeful' and c not in und)]
                sur_terms = []
                for s in pend:
                    v = num(ctx, s['vote'])
                    # surplus (not below zero)
                    if rec.is_rational(E.V):
                        d = (v[0] * q[1] - q[0] * v[1], v[1] * q[1])
                        sur_terms.append((z3.If(d[0] > 0, d[0], 0), d[1]))
                    else:
                        sur_terms.append((z3.If(v[0] > q[0], v[0] - q[0], 0), v[1]))
                undv = [num(ctx, rcs[c]['vote']) for c in g_und]
                base = S1 = ctx.S if not rec.is_rational(E.V) else 1
                gv = VOps.sum([num(ctx, rcs[c]['vote']) for c in g2] + sur_terms + undv, base)
                if len(g2) == 1:
                    d = g2[0]
                    dv = num(ctx, rcs[d]['vote'])
                    lowest = z3.And([a_le(ctx, dv, num(ctx, rcs[h]['vote'])) for h in rest] + [TRUE])
                    sure = z3.And([a_lt(ctx, gv, num(ctx, rcs[h]['vote'])) for h in rest] + [TRUE])
                    ctx.reach('single-exclusion')
                    ctx.bad('excluded-neither-lowest-nor-sure-loser', z3.Not(z3.Or(lowest, sure)))
                    if not tie_before and 'batch' not in acts[i]['msg'] and 'sure' not in acts[i]['msg'] and 'certain' not in acts[i]['msg']:
                        # unlogged tie: nobody else may share the lowest tally
                        ctx.bad('tie-for-exclusion-not-logged', z3.And(lowest, z3.Or([a_eq(ctx, dv, num(ctx, rcs[h]['vote'])) for h in rest] + [z3.BoolVal(False)])))
                else:
                    ctx.reach('batch-exclusion')
                    zero_batch = ctx.rule == 'wigm' and 'batch(zero)' in acts[i]['msg']
                    for h in rest:
                        if zero_batch:
                            ctx.bad('zero-batch-member-has-votes', z3.Or([num(ctx, rcs[c]['vote'])[0] != 0 for c in g2]))
                        else:
                            ctx.bad('batch-not-sure-losers', z3.Not(a_lt(ctx, gv, num(ctx, rcs[h]['vote']))))
                    if len(rest) + nel < seats:
                        ctx.bad('batch-leaves-too-few-candidates', TRUE)
            elif method == 'meek':
                sur = num(ctx, ref['surplus'])
                if ctx.rule == 'meek-prf':
                    # meek-prf logs no 'iterate' action: the snapshot that shows the distribution the exclusion is based on is
                    # the 'defeat' action itself (tally and keep factor are zeroed after it is logged); the preceding 'round'
                    # snapshot still shows the previous round's tallies
                    rcs = acts[i]['cstate']
                    sur = num(ctx, acts[i]['surplus'])
                base = ctx.S if not rec.is_rational(E.V) else 1
                if len(g2) == 1:
                    d = g2[0]
                    dv = num(ctx, rcs[d]['vote'])
                    ctx.reach('single-exclusion')
                    for h in rest:
                        # lowest within the current total surplus: d.vote <= h.vote + surplus
                        ctx.bad('excluded-not-lowest-within-surplus', a_lt(ctx, VOps.add(num(ctx, rcs[h]['vote']), sur), dv))
                    if not tie_before:
                        # no other hopeful within the surplus of the lowest tally (else a tie should have been logged)
                        for h in rest:
                            lowv = dv
                            ctx.bad('tie-for-exclusion-not-logged',
                                    z3.And(z3.And([a_le(ctx, dv, num(ctx, rcs[x]['vote'])) for x in rest] + [TRUE]),
                                           a_le(ctx, num(ctx, rcs[h]['vote']), VOps.add(lowv, sur))))
                else:
                    ctx.reach('batch-exclusion')
                    gv = VOps.sum([num(ctx, rcs[c]['vote']) for c in g2] + [sur], base)
                    for h in rest:
                        ctx.bad('batch-not-sure-losers', z3.Not(a_lt(ctx, gv, num(ctx, rcs[h]['vote']))))
                    if len(rest) + nel < seats:
                        ctx.bad('batch-leaves-too-few-candidates', TRUE)
            elif method == 'qpq':
                ctx.reach('single-exclusion')
                if len(g2) != 1:
                    ctx.bad('qpq-multiple-exclusion', TRUE)
                else:
                    d = g2[0]
                    dq = num(ctx, rcs[d]['quotient'])
                    for h in rest:
                        ctx.bad('excluded-not-lowest-quotient', a_lt(ctx, num(ctx, rcs[h]['quotient']), dq))
                    if not tie_before:
                        ctx.bad('tie-for-exclusion-not-logged', z3.Or([a_eq(ctx, dq, num(ctx, rcs[h]['quotient'])) for h in rest] + [z3.BoolVal(False)]))
        i = j
    # --- largest surplus first
    for i, A in enumerate(acts):
        if A['tag'] == 'unpend' and i > 0 and ctx.rule in ('wigm', 'wigm-prf', 'wigm-prf-batch', 'scotland'):
            ref = acts[i - 1]
            rcs = ref['cstate']
            now = [c for c in rcs if rcs[c].get('pending') and not A['cstate'][c].get('pending')]
            pend = [c for c in rcs if rcs[c]['state'] == 'elected' and rcs[c].get('pending')]
            if len(now) != 1:
                ctx.bad('unpend-without-candidate', TRUE)
                continue
            ctx.reach('surplus-choice')
            cv = num(ctx, rcs[now[0]]['vote'])
            for p_ in pend:
                if p_ != now[0]:
                    ctx.bad('surplus-not-largest-first', a_lt(ctx, cv, num(ctx, rcs[p_]['vote'])))
                    if ref['tag'] != 'tie':
                        ctx.bad('tie-for-surplus-not-logged', a_eq(ctx, cv, num(ctx, rcs[p_]['vote'])))
        if A['tag'] == 'elect' and ctx.rule == 'mpls' and i > 0 and A['msg'].startswith('Elect:'):
            ref = acts[i - 1]
            rcs = ref['cstate']
            now = [c for c in rcs if rcs[c]['state'] == 'hopeful' and A['cstate'][c]['state'] == 'elected']
            if len(now) == 1:
                ctx.reach('surplus-choice')
                cv = num(ctx, rcs[now[0]]['vote'])
                for c, s in rcs.items():
                    if s['state'] == 'hopeful' and c != now[0] and c not in und:
                        ctx.bad('surplus-not-largest-first', a_lt(ctx, cv, num(ctx, s['vote'])))
                        if ref['tag'] != 'tie':
                            ctx.bad('tie-for-surplus-not-logged', a_eq(ctx, cv, num(ctx, s['vote'])))


# ---------------------------------------------------------------------------------------------------
# C08

def mon_C08(ctx):
    if ctx.exc is not None or ctx.method != 'meek':
        return
    E = ctx.E
    S = ctx.S
    N = ctx.N
    rational = rec.is_rational(E.V)
    acts = ctx.acts
    omega = num(ctx, E.rule.omega)
    dirty = False
    iter_end_in_round = False
    one = (z3.IntVal(S), S) if not rational else (z3.IntVal(1), 1)
    logs = E.erecord['actions']
    for k, A in enumerate(acts):
        tag = A['tag']
        if tag == 'round':
            dirty = False
            iter_end_in_round = False
        if ctx.rule == 'meek-prf':
            clean = tag in ('begin', 'end') or (tag in ('elect', 'tie', 'defeat') and not dirty)
            if tag in ('elect', 'tie', 'defeat') and not dirty:
                iter_end_in_round = True      # meek-prf logs no 'iterate'; these follow an iteration step
        else:
            clean = tag in ('iterate', 'end')
            if tag == 'iterate':
                iter_end_in_round = True
        cs = A['cstate']
        if clean:
            ctx.reach('clean-snapshot')
            votes = [num(ctx, s['vote']) for c, s in cs.items() if 'vote' in s]
            res = num(ctx, A['residual'])
            base = S if not rational else 1
            tot = VOps.sum(votes + [res], base)
            ctx.bad('votes-plus-residual-differ-from-ballots:%s' % tag, tot[0] != N * tot[1])
            ctx.bad('negative-residual', res[0] < 0)
            for v in votes:
                ctx.bad('negative-tally', v[0] < 0)
            just_defeated = []
            if tag == 'defeat' and k > 0:
                # this snapshot shows the distribution *before* the exclusion it announces: the candidate named here still
                # carries the keep factor (and tally) of a hopeful candidate; they are zeroed after the action is logged
                just_defeated = [c for c, s in cs.items() if s['state'] == 'defeated' and acts[k - 1]['cstate'][c]['state'] == 'hopeful']
            for c, s in cs.items():
                if 'kf' not in s or s['kf'] is None:
                    if s['state'] != 'withdrawn':
                        ctx.bad('keep-factor-missing', TRUE)
                    continue
                kf = num(ctx, s['kf'])
                if s['state'] == 'hopeful' or c in just_defeated:
                    ctx.bad('hopeful-keep-factor-not-one', z3.Not(VOps.eq(kf, one)))
                elif s['state'] == 'defeated':
                    ctx.bad('defeated-keep-factor-not-zero', kf[0] != 0)
                elif s['state'] == 'elected':
                    ctx.bad('elected-keep-factor-out-of-range', z3.Or(kf[0] <= 0, VOps.lt(one, kf)))
        if tag == 'iterate':
            msg = A['msg']
            sur = num(ctx, A['surplus'])
            if '(omega)' in msg:
                ctx.reach('omega-exit')
                ctx.bad('omega-exit-with-surplus-above-omega', a_lt(ctx, omega, sur))
            elif '(stable)' in msg:
                ctx.reach('stable-exit')
                # the log line precedes it
                ai = logs.index(A)
                if ai == 0 or not logs[ai - 1]['msg'].startswith('Stable state detected'):
                    ctx.bad('stable-exit-not-logged', TRUE)
            elif '(batch)' in msg:
                ctx.reach('batch-exit')
            elif '(elected)' in msg:
                ctx.reach('elected-exit')
            else:
                ctx.bad('unknown-iteration-exit', TRUE)
        if tag == 'defeat':
            nel = sum(1 for s in acts[k - 1]['cstate'].values() if s['state'] == 'elected') if k else 0
            if nel < ctx.seats and 'remaining' not in A['msg']:
                if ctx.rule == 'meek-prf':
                    sur = num(ctx, A['surplus'])
                    if 'omega' in A['msg']:
                        ctx.reach('omega-exit')
                        ctx.bad('omega-exit-with-surplus-not-below-omega', z3.Not(a_lt(ctx, sur, omega)))
                    if not iter_end_in_round and not dirty:
                        pass
                elif not iter_end_in_round:
                    ctx.bad('exclusion-without-end-of-iteration', TRUE)
            dirty = True
    _c08_stable_exits(ctx)


mon_C08.needs_surplus_hist = True


def _c08_stable_exits(ctx):
    "a round may end as 'stable' only when the total surplus did not decrease from the previous iteration of that round"
    E = ctx.E
    hist = ctx.extra.get('surplus_hist')
    if hist is None:
        return
    logs = E.erecord['actions']
    rational = rec.is_rational(E.V)
    for L, A in enumerate(logs):
        if A['tag'] != 'log' or not A['msg'].startswith('Stable state detected'):
            continue
        upto = [h for h in hist if h[0] <= L]
        if not upto or upto[-1][0] != L:
            ctx.bad('stable-exit-without-a-surplus-calculation', TRUE)
            continue
        cur = num(ctx, upto[-1][1])
        if len(upto) >= 2 and upto[-2][0] == L:
            prev = num(ctx, upto[-2][1])
        else:
            prev = (ctx.N * (1 if rational else ctx.S), 1 if rational else ctx.S)     # first iteration of the round: compared with the ballot total
        ctx.reach('stable-exit-compared')
        ctx.bad('stable-exit-while-surplus-still-decreasing', a_lt(ctx, cur, prev))


# ---------------------------------------------------------------------------------------------------
# C18 (audit-trail part; renderings are checked by the marker run)

def mon_C18(ctx):
    if ctx.exc is not None:
        return
    E = ctx.E
    acts = ctx.acts
    names = {}
    for c_ in E.C:
        names.setdefault(c_.name, []).append(c_.cid)
    if not acts:
        ctx.bad('empty-record', TRUE)
        return
    first = acts[0]['tag']
    if first != 'begin' and not (ctx.rule == 'mpls' and first == 'round'):
        ctx.bad('first-action-%s' % first, TRUE)
    if acts[-1]['tag'] != 'end' or any(a['tag'] == 'end' for a in acts[:-1]):
        ctx.bad('end-action-misplaced', TRUE)
    prev = None
    restart_pending = False
    for A in acts:
        cs = A['cstate']
        if prev is not None:
            pcs = prev['cstate']
            if ctx.rule == 'qpq' and prev['tag'] == 'round' and restart_pending:
                # QPQ's documented restart: right after the 'round' action that follows an exclusion every elected candidate
                # is hopeful again (implied by the logged exclusion); elections in this round are status changes from hopeful
                pcs = {c: (dict(s_, state='hopeful') if s_['state'] == 'elected' else s_) for c, s_ in pcs.items()}
                restart_pending = False
                ctx.reach('qpq-restart-implied')
            st_changed = [c for c in cs if cs[c]['state'] != pcs[c]['state']]
            pend_cleared = [c for c in cs if pcs[c].get('pending') and not cs[c].get('pending')]
            named = None
            if A['tag'] in ('elect', 'defeat'):
                nm = A['msg'].split(': ', 1)[1] if ': ' in A['msg'] else None
                cands = names.get(nm) or []     # several candidates may share a name
                if not cands:
                    ctx.bad('%s-names-nobody' % A['tag'], TRUE)
                want = 'defeated' if A['tag'] == 'defeat' else 'elected'
                hit = [c for c in cands if (c in st_changed and cs[c]['state'] == want) or (A['tag'] == 'elect' and c in pend_cleared)]
                if cands and not hit:
                    ctx.bad('%s-names-candidate-whose-status-does-not-change' % A['tag'], TRUE)
                named = hit[0] if hit else None
            extra = [c for c in st_changed if c != named]
            if ctx.rule == 'qpq':
                # after the virtual restart, candidates elected earlier and not yet re-elected in this round show as
                # hopeful(virtual) vs elected(snapshot lags)?  no: the snapshot is taken after the real un-election, so it shows hopeful
                extra = [c for c in extra if not (pcs[c]['state'] == 'elected' and cs[c]['state'] == 'hopeful')]
            if extra:
                ctx.bad('unlisted-status-change:%s' % A['tag'], TRUE)
            if ctx.rule == 'qpq' and A['tag'] == 'defeat':
                restart_pending = True
        else:
            # the first snapshot: everybody not withdrawn is hopeful (nothing happened before the record starts)
            for c, s in cs.items():
                if s['state'] not in ('hopeful', 'withdrawn'):
                    ctx.bad('status-change-before-first-action', TRUE)
        prev = A
    fin = acts[-1]['cstate']
    if set(c for c in fin if fin[c]['state'] == 'elected') != set(c.cid for c in E.elected):
        ctx.bad('final-elected-set-differs', TRUE)
    if set(c for c in fin if fin[c]['state'] == 'defeated') != set(c.cid for c in E.defeated):
        ctx.bad('final-defeated-set-differs', TRUE)
    ctx.reach('audit-trail-walked')


# ---------------------------------------------------------------------------------------------------
# C18 (renderings): report, dump and json agree with the record and with one another, and rendering does not change the record

import json as _json
import re as _re

_MARK = _re.compile(r'<([SR])(\d+)>')


def _vkey(x):
    "a printable identity of a value: equal values of one arithmetic get equal keys (a compact token without brackets)"
    import hashlib
    from symex.core import SymInt
    def k(i):
        if isinstance(i, SymInt):
            return 'L%s+%d' % (sorted(i.lin.items()), i.c)
        return str(i)
    if hasattr(x, '_value'):
        t = 'v:%s' % k(x._value)
    elif hasattr(x, '_numerator'):
        t = 'q:%s/%s' % (k(x._numerator), k(x._denominator))
    else:
        return str(x)
    return 'V' + hashlib.sha1(t.encode()).hexdigest()[:12]


def mon_C18r(ctx):
    if ctx.exc is not None:
        return
    from symex import shims
    E = ctx.E
    R = E.erecord
    symbolic = ctx.symbolic

    def show(v):
        return _vkey(v) if symbolic else str(v)

    def norm(text):
        if not symbolic:
            return text
        def rep(m):
            obj = shims.MARKERS.get(m.group(0))
            if m.group(1) == 'R':
                return '<repr-used>'
            return _vkey(obj) if obj is not None else '<unknown-marker>'
        return _MARK.sub(rep, text)

    def fingerprint():
        out = []
        for A in R['actions']:
            row = [A['tag'], norm(A['msg']), A['round'], tuple(sorted(A.keys()))]
            if 'cstate' in A:
                for cid, s_ in sorted(A['cstate'].items()):
                    row.append((cid, s_['state'], s_['code'], tuple(sorted(s_.keys())), show(s_.get('vote')), show(s_.get('kf')), show(s_.get('quotient'))))
                row.append((show(A['quota']), show(A['votes']), show(A.get('nt_votes')), show(A.get('residual')), show(A.get('surplus'))))
            out.append(tuple(row))
        return (tuple(out), tuple(sorted(k for k in R.keys())), show(R.get('quota')), R.get('seats'), str(R.get('nballots')))
    fp0 = fingerprint()
    try:
        j1 = norm(E.json())
        d1 = norm(E.dump())
        r1 = norm(E.report())
        j2 = norm(E.json())
        r2 = norm(E.report())
        d2 = norm(E.dump())
    except Exception as ex:      # noqa
        from symex import core
        if isinstance(ex, core.HarnessError):
            raise
        ctx.bad('rendering-raised:%s' % type(ex).__name__, TRUE)
        return
    ctx.reach('renderings-compared')
    if fingerprint() != fp0:
        ctx.bad('rendering-changed-the-record', TRUE)
    if j1 != j2 or r1 != r2 or d1 != d2:
        ctx.bad('rendering-depends-on-rendering-order', TRUE)
    if '<repr-used>' in j1 + d1 + r1:
        ctx.bad('rendering-uses-repr-instead-of-printed-form', TRUE)
    # --- json
    try:
        J = _json.loads(j1)
    except ValueError:
        ctx.bad('json-invalid', TRUE)
        return
    acts = R['actions']
    ja = J.get('actions')
    if not isinstance(ja, list) or len(ja) != len(acts):
        ctx.bad('json-action-count', TRUE)
        return
    for A, B in zip(acts, ja):
        if (A['tag'], norm(A['msg']), A['round']) != (B.get('tag'), B.get('msg'), B.get('round')):
            ctx.bad('json-action-differs', TRUE)
            break
        if A['tag'] == 'log':
            continue
        for cid, s_ in A['cstate'].items():
            t_ = B['cstate'].get(str(cid))
            if t_ is None or t_.get('state') != s_['state'] or t_.get('code') != s_['code']:
                ctx.bad('json-status-differs', TRUE)
                break
            for f in ('vote', 'kf', 'quotient'):
                if (f in s_) != (f in t_) or (f in s_ and s_[f] is not None and t_[f] != show(s_[f])):
                    ctx.bad('json-value-differs:%s' % f, TRUE)
        for f in ('quota', 'votes', 'nt_votes', 'residual', 'surplus'):
            if (f in A) != (f in B) or (f in A and A[f] is not None and B[f] != show(A[f])):
                ctx.bad('json-value-differs:%s' % f, TRUE)
    if J.get('seats') != R['seats'] or str(J.get('nballots')) != str(R['nballots']) or J.get('quota') != show(R['quota']):
        ctx.bad('json-header-differs', TRUE)
    # --- dump
    rows = d1.split('\n')
    if rows[-1] != '':
        ctx.bad('dump-no-trailing-newline', TRUE)
    rows = rows[:-1]
    hdr = rows[0].split('\t')
    if len(rows) != len(acts) + 1:
        ctx.bad('dump-row-count', TRUE)
    else:
        ecids = R['ecids']
        for A, row in zip(acts, rows[1:]):
            cells = row.split('\t')
            if A['tag'] in ('round', 'log', 'iterate'):
                if cells[:2] != [str(A['round']), A['tag']] or '\t'.join(cells[2:]) != norm(A['msg']):
                    ctx.bad('dump-log-row-differs', TRUE)
                continue
            if len(cells) != len(hdr):
                ctx.bad('dump-column-count', TRUE)
                continue
            want_r = 'X' if A['tag'] == 'end' else str(A['round'])
            if cells[0] != want_r or cells[1] != A['tag'] or cells[2] != show(A['quota']):
                ctx.bad('dump-row-head-differs', TRUE)
            per = (len(hdr) - [i for i, h in enumerate(hdr) if h.endswith('.name')][0]) // max(len(ecids), 1) if ecids else 0
            first = [i for i, h in enumerate(hdr) if h.endswith('.name')][0] if ecids else len(hdr)
            for k, cid in enumerate(ecids):
                base = first + k * per
                s_ = A['cstate'][cid]
                if cells[base] != R['cdict'][cid]['name'] or cells[base + 1] != s_['code']:
                    ctx.bad('dump-status-differs', TRUE)
                for off, hname in enumerate(hdr[base + 2:base + per]):
                    f = hname.split('.')[-1]
                    if f in s_ and s_[f] is not None and cells[base + 2 + off] != show(s_[f]):
                        ctx.bad('dump-value-differs:%s' % f, TRUE)
    # --- report: every status line of every action block shows the record's status and tally
    blocks = r1.split('Action: ')
    nonlog = [A for A in acts if A['tag'] not in ('log', 'round')]
    if len(blocks) - 1 != len(nonlog):
        ctx.bad('report-action-count', TRUE)
    else:
        names = {}
        for cid, d_ in R['cdict'].items():
            names.setdefault(d_['name'], []).append(cid)
        for A, blk in zip(nonlog, blocks[1:]):
            if not blk.startswith(norm(A['msg'])):
                ctx.bad('report-action-message-differs', TRUE)
                continue
            for ln in blk.split('\n')[1:]:
                m = _re.match(r'\t(Elected|Pending|Hopeful|Defeated): +(.*) \((.*)\)$', ln)
                if not m:
                    continue
                kind, nm, val = m.group(1), m.group(2), m.group(3)
                if kind == 'Defeated' and val == show(E.V0):
                    # the report groups defeated candidates without votes on one line and prints the constant zero
                    for nm_ in nm.split(', '):
                        for cid in names.get(nm_, []):
                            s_ = A['cstate'][cid]
                            if s_['state'] == 'defeated':
                                ctx.bad('report-shows-zero-for-defeated-candidate-with-votes', num(ctx, s_['vote'])[0] != 0)
                    if not all(any(A['cstate'][cid]['state'] == 'defeated' for cid in names.get(nm_, [])) for nm_ in nm.split(', ')):
                        ctx.bad('report-status-line-differs', TRUE)
                    continue
                if ', ' in nm and kind == 'Defeated':
                    continue
                cids = names.get(nm)
                if not cids:
                    ctx.bad('report-names-unknown-candidate', TRUE)
                    continue
                ok = False
                for cid in cids:
                    s_ = A['cstate'][cid]
                    st = {'Elected': 'elected', 'Pending': 'elected', 'Hopeful': 'hopeful', 'Defeated': 'defeated'}[kind]
                    shown = s_.get('quotient') if ctx.rule == 'qpq' else s_.get('vote')
                    if s_['state'] == st and shown is not None and val == show(shown) and (kind != 'Pending' or s_.get('pending')):
                        ok = True
                if not ok:
                    ctx.bad('report-status-line-differs', TRUE)
                    ctx.extra.setdefault('dbg', []).append((ln, [(cid, A['cstate'][cid]['state'], show(A['cstate'][cid].get('vote'))) for cid in cids], A['tag']))


# ---------------------------------------------------------------------------------------------------
# C03: statutory rules against reference transcriptions of their published texts

def _norm_stages(st):
    "drop trailing 'elect' stages (why the last candidates are declared elected is not compared) "
    st = list(st)
    while st and st[-1][0] == 'elect':
        st.pop()
    out = []
    for s_ in st:
        if s_[0] == 'surplus' and out and out[-1][0] == 'surplus-group':
            out[-1] = ('surplus-group', out[-1][1] | {s_[1]}, s_[2])
        elif s_[0] == 'surplus':
            out.append(('surplus-group', frozenset([s_[1]]), s_[2]))
        else:
            out.append(s_)
    return out


def _stages_differ(ctx, A, B):
    "returns ('STRUCT', why) or ('COND', [conds]) for two stage lists"
    A, B = _norm_stages(A), _norm_stages(B)
    if len(A) != len(B):
        return 'STRUCT', 'number of stages %d vs %d' % (len(A), len(B))
    conds = []
    for k, (a, b) in enumerate(zip(A, B)):
        if a[0] != b[0]:
            return 'STRUCT', 'stage %d: %s vs %s' % (k, a[0], b[0])
        if a[0] == 'elect':
            if frozenset(a[1]) != frozenset(b[1]):
                return 'STRUCT', 'stage %d elects %s vs %s' % (k, sorted(a[1]), sorted(b[1]))
            continue
        if frozenset(a[1]) != frozenset(b[1]):
            return 'STRUCT', 'stage %d %s %s vs %s' % (k, a[0], a[1], b[1])
        if (a[2] is None) != (b[2] is None):
            return 'STRUCT', 'stage %d: transfer made by one side only' % k
        if a[2] is not None:
            if set(a[2]) != set(b[2]):
                return 'STRUCT', 'stage %d candidates' % k
            for c in a[2]:
                conds.append(lz(a[2][c]) != lz(b[2][c]))
    return 'COND', conds


def mon_C03(ctx):
    if ctx.exc is not None:
        return
    from refs import common
    E = ctx.E
    rule = ctx.rule
    if rule not in ('wigm-prf', 'wigm-prf-batch', 'scotland', 'mpls', 'cfer', 'cfer-batch', 'meek-prf', 'qpq'):
        return
    names = name2cid(ctx)
    impl, impl_final = common.impl_stages(E, names)
    ts = ctx.ts
    if ts is None:
        rank = {c.cid: c.tieOrder for c in E.C}
    else:
        from symex.core import SymInt
        rank = {c.cid: c.tieOrder for c in E.C}
    cands = [c.cid for c in E.C if c.state != 'withdrawn' or False]
    cands = sorted(c for c in ctx.U.eligible)
    nb = E.nBallots
    if rule in ('wigm-prf', 'wigm-prf-batch'):
        from refs import wigm_prf as R
        S = R.S
        quota_ref = nb * S * S // ((ctx.seats + 1) * S) + 1
        def run(follow_impl, notes):
            return R.count(cands, ctx.seats, common.papers_from(E, S), rank, nb, rule.endswith('batch'), follow_impl, notes)
    elif rule == 'scotland':
        from refs import scotland as R
        S = R.S
        quota_ref = (nb // (ctx.seats + 1) + 1) * S
        def run(follow_impl, notes):
            return R.count(cands, ctx.seats, common.papers_from(E, S), rank, nb, follow_impl, notes)
    elif rule in ('cfer', 'cfer-batch'):
        from refs import cfer as R
        S = R.S
        quota_ref = nb * S * S // ((ctx.seats + 1) * S) + 1
        def run(follow_impl, notes):
            return R.count(cands, ctx.seats, common.papers_from(E, S), rank, nb, rule.endswith('batch'), follow_impl, notes)
    elif rule == 'mpls':
        if ctx.U.undeclared:
            return
        from refs import mpls as R
        S = R.S
        quota_ref = (nb // (ctx.seats + 1) + 1) * S
        def run(follow_impl, notes):
            return R.count(cands, ctx.seats, common.papers_from(E, S), rank, nb, follow_impl, notes)
    elif rule == 'meek-prf':
        return _c03_meek_prf(ctx, cands, rank, nb)
    elif rule == 'qpq':
        return _c03_qpq(ctx, cands, rank, nb)
    else:
        return
    ctx.reach('reference-run')
    # quota
    ctx.bad('quota-differs-from-the-text', lz(E.quota._value) != lz(quota_ref))
    notes_t, notes_i = [], []
    ref_t, fin_t = run(False, notes_t)
    kind, x = _stages_differ(ctx, impl, ref_t)
    same_as_text = kind == 'COND' and fin_t == impl_final
    if same_as_text:
        c_ = z3.simplify(z3.Or(*x)) if x else z3.BoolVal(False)
        if z3.is_false(c_):
            ctx.reach('matches-text')
            return
    # differs from the text (or only equal for some inputs of this path): is it the recorded departure, and nothing else?
    ref_i, fin_i = run(True, notes_i)
    kind2, x2 = _stages_differ(ctx, impl, ref_i)
    if kind2 == 'STRUCT':
        ctx.bad('history-differs-from-the-text:%s' % x2.split(':')[0][:30], TRUE)
        return
    if fin_i != impl_final:
        ctx.bad('winners-differ-from-the-text', TRUE)
        return
    if x2:
        ctx.bad('tallies-differ-from-the-text', z3.Or(*x2))
    if kind == 'STRUCT' or fin_t != impl_final:
        # matches only with the recorded departures switched on
        ctx.reach('text-departure')
        for n_ in sorted(set(notes_i)):
            ctx.bad('text-departure:%s' % n_, TRUE)
        if not notes_i:
            ctx.bad('history-differs-from-the-text:unexplained', TRUE)
    elif same_as_text:
        ctx.bad('tallies-differ-from-the-text', z3.Or(*x))


def _c03_meek_prf(ctx, cands, rank, nb):
    from refs import common, meek_prf as R
    E = ctx.E
    names = name2cid(ctx)
    ev, fin = R.count(cands, ctx.seats, common.papers_from(E, R.S), rank, nb)
    ctx.reach('reference-run')
    # the implementation's events: in-iteration elections (grouped) and pre-exclusion snapshots
    acts = ctx.acts
    impl = []
    for A in acts:
        if A['tag'] == 'elect' and 'remaining' not in A['msg']:
            cid = names[A['msg'].split(': ', 1)[1]]
            if impl and impl[-1][0] == 'elect' and impl[-1][3] is prev_votes_id(A, impl[-1]):
                impl[-1][1].add(cid)
                impl[-1][2] = A
            else:
                impl.append(['elect', {cid}, A, A['round']])
        elif A['tag'] == 'defeat' and 'remaining' not in A['msg']:
            impl.append(['exclude', names[A['msg'].split(': ', 1)[1]], A, A['round']])
    if len(impl) != len(ev):
        ctx.bad('history-differs-from-the-text:number of events', TRUE)
        return
    conds = []
    for a, b in zip(impl, ev):
        if a[0] != b[0] or (frozenset(a[1]) if a[0] == 'elect' else a[1]) != b[1]:
            ctx.bad('history-differs-from-the-text:%s' % a[0], TRUE)
            return
        A = a[2]
        votes, quota, surplus, kf = b[2]
        conds.append(lz(A['quota']._value) != lz(quota))
        if a[0] == 'exclude':
            # (the record logs an election before B.2.d recomputes the total surplus, so only exclusions show it)
            conds.append(lz(A['surplus']._value) != lz(surplus))
        for c, s_ in A['cstate'].items():
            if 'vote' not in s_:
                continue
            conds.append(lz(s_['vote']._value) != lz(votes[c]))
            # the record shows the keep factors as they stand at the event (a candidate elected in this very iteration keeps 1)
            conds.append(lz(s_['kf']._value) != lz(kf[c]))
    if fin != frozenset(c.cid for c in E.C if c.state == 'elected'):
        ctx.bad('winners-differ-from-the-text', TRUE)
    if conds:
        ctx.bad('tallies-differ-from-the-text', z3.Or(*conds))
    ctx.reach('matches-text')


def prev_votes_id(A, last):
    "consecutive 'elect' actions of one iteration belong together: same round, and nothing but elections in between"
    return last[3] if A['round'] == last[3] else None


def _c03_qpq(ctx, cands, rank, nb):
    from refs import common, qpq as R
    E = ctx.E
    names = name2cid(ctx)
    ev, fin = R.count(cands, ctx.seats, common.papers_from(E, R.S), rank, nb)
    ctx.reach('reference-run')
    acts = ctx.acts
    impl = []
    for A in acts:
        if A['tag'] == 'elect' and 'remaining' not in A['msg']:
            impl.append(('elect', names[A['msg'].split(': ', 1)[1]], A))
        elif A['tag'] == 'defeat' and 'remaining' not in A['msg']:
            impl.append(('exclude', names[A['msg'].split(': ', 1)[1]], A))
    if len(impl) != len(ev):
        ctx.bad('history-differs-from-the-text:number of events', TRUE)
        return
    conds = []
    for a, b in zip(impl, ev):
        if a[0] != b[0] or a[1] != b[1]:
            ctx.bad('history-differs-from-the-text:%s' % a[0], TRUE)
            return
        A = a[2]
        conds.append(lz(A['quota']._value) != lz(b[3]))
        for c, qv in b[2].items():
            conds.append(lz(A['cstate'][c]['quotient']._value) != lz(qv))
    if fin != frozenset(c.cid for c in E.C if c.state == 'elected'):
        ctx.bad('winners-differ-from-the-text', TRUE)
    if conds:
        ctx.bad('tallies-differ-from-the-text', z3.Or(*conds))
    ctx.reach('matches-text')


# ---------------------------------------------------------------------------------------------------
# C17: the report header names unused and overridden options; the record reports the four layers

def mon_C17h(ctx):
    if ctx.exc is not None:
        return
    E = ctx.E
    spec = ctx.spec
    try:
        rep = E.report()
    except Exception as ex:     # noqa
        from symex import core
        if isinstance(ex, core.HarnessError):
            raise
        ctx.bad('report-raised:%s' % type(ex).__name__, TRUE)
        return
    ctx.reach('header-checked')
    head = rep.split('\tSeats:')[0]
    def listed(label):
        for ln in head.split('\n'):
            if ln.startswith('\t%s: ' % label):
                return [x.strip() for x in ln.split(': ', 1)[1].split(',')]
        return []
    if sorted(listed('Unused options')) != sorted(spec['expect_unused']):
        ctx.bad('unused-options-line:%s' % listed('Unused options'), TRUE)
    if sorted(listed('Overridden options')) != sorted(spec['expect_overridden']):
        ctx.bad('overridden-options-line:%s' % listed('Overridden options'), TRUE)
    ro = E.record()['options']
    cmd = {k: v for k, v in (spec.get('opts') or {}).items()}
    for k, v in cmd.items():
        if ro['cmd'].get(k) != v:
            ctx.bad('record-cmd-layer', TRUE)
    for k, v in (spec.get('expect_file') or {}).items():
        if ro['file_options'].get(k) != v:
            ctx.bad('record-file-layer', TRUE)
    for k, v in (spec.get('expect_force') or {}).items():
        if ro['force'].get(k) != v or ro['options'].get(k) != v or E.options.getopt(k) != v:
            ctx.bad('record-force-layer', TRUE)


# ---------------------------------------------------------------------------------------------------
# vacuity guard: the twin whose assertion is False must come back violated (and reproduce on the pristine code)

def mon_TWIN(ctx):
    ctx.bad('twin-assert-false', TRUE)
