"""Property monitors for count-mode runs.  A monitor never branches on symbolic values: it registers z3
conditions whose satisfiability (under the path condition) means the property is violated
(ctx.bad(key, cond)), and reachability events (ctx.reach).  The same monitor code is evaluated on the
concrete pristine run when a counterexample is replayed."""
import itertools

import z3

from harness import rec
from harness.rec import raw
from symex.core import lz

TRUE = z3.BoolVal(True)

SURPLUS_MSG = ('Surplus transferred', 'Transfer surplus')


def is_surplus_transfer(A):
    return A['tag'] == 'transfer' and A['msg'].startswith(SURPLUS_MSG)


def num(ctx, x):
    "value -> z3 term comparable across one run: raw for fixed/guarded, (num, den) pair for rational"
    if hasattr(x, '_value'):
        return lz(x._value), ctx.S
    d = x._denominator
    if not isinstance(d, int):
        # a denominator is fixed by the path condition (the exact gcd shim has forked on it) even when its term is
        # syntactically symbolic: realise it so that cross-multiplication stays linear
        from symex import core
        d = core.ENGINE.realize(lz(d))
    return lz(x._numerator), int(d)


class VOps:
    "comparisons in exact order on (num, den) pairs with positive denominators"

    @staticmethod
    def lt(a, b):
        return a[0] * b[1] < b[0] * a[1]

    @staticmethod
    def le(a, b):
        return a[0] * b[1] <= b[0] * a[1]

    @staticmethod
    def eq(a, b):
        return a[0] * b[1] == b[0] * a[1]

    @staticmethod
    def add(a, b):
        if isinstance(a[1], int) and isinstance(b[1], int):
            import math
            l = a[1] * b[1] // math.gcd(a[1], b[1])
            return (a[0] * (l // a[1]) + b[0] * (l // b[1]), l)
        return (a[0] * b[1] + b[0] * a[1], a[1] * b[1])

    @staticmethod
    def sum(vals, den1):
        acc = (z3.IntVal(0), den1)
        for v in vals:
            acc = VOps.add(acc, v)
        return acc


def guarded_geps(E):
    V = E.V
    if V.name == 'guarded':
        g = V.guard
        return max(10 ** g // 2, 1)
    return 1


# ---------------------------------------------------------------------------------------------------
# C01

def mon_C01(ctx):
    E = ctx.E
    if ctx.exc is not None:
        ctx.bad('exception:%s' % type(ctx.exc).__name__, TRUE)
        return
    ctx.reach('count-returned')
    electable = ctx.electable()
    want = min(ctx.seats, len(electable))
    el = set(c.cid for c in E.elected)
    de = set(c.cid for c in E.defeated)
    wd = set(c.cid for c in E.withdrawn)
    if len(el) != want:
        ctx.bad('seats:%d-of-%d' % (len(el), want), TRUE)
    if el & de:
        ctx.bad('elected-and-defeated', TRUE)
    for c in ctx.U.eligible:
        if c not in el and c not in de:
            ctx.bad('undecided', TRUE)
    if wd != set(ctx.U.withdrawn):
        ctx.bad('withdrawn-set', TRUE)
    if el & set(ctx.U.withdrawn):
        ctx.bad('withdrawn-elected', TRUE)
    if ctx.rule == 'mpls' and el & set(ctx.U.undeclared):
        ctx.bad('undeclared-elected', TRUE)
    acts = ctx.acts
    if not acts or acts[-1]['tag'] != 'end':
        ctx.bad('no-end-action', TRUE)
    for A in acts:
        for w in ctx.U.withdrawn:
            s = A['cstate'][w]
            if s['state'] != 'withdrawn' or 'vote' in s:
                ctx.bad('withdrawn-state', TRUE)
    for c in E.C:
        if c.cid in ctx.U.withdrawn:
            n_, d_ = num(ctx, c.vote)
            ctx.bad('withdrawn-credited', n_ != 0)
    if ctx.U.withdrawn:
        ctx.reach('withdrawn-present')
    if len(electable) < ctx.seats:
        ctx.reach('fewer-electable-than-seats')


# ---------------------------------------------------------------------------------------------------
# C02

def mon_C02(ctx):
    if ctx.exc is not None:
        return
    E = ctx.E
    method = ctx.method
    rational = rec.is_rational(E.V)
    S = ctx.S
    N = ctx.N
    T = 0
    dirty = False
    for A in ctx.acts:
        cs = A['cstate']
        votes = [num(ctx, s['vote']) for c, s in cs.items() if 'vote' in s]
        for v in votes:
            ctx.bad('negative-tally', v[0] < 0)
        if method == 'wigm':
            nt = num(ctx, A['nt_votes'])
            ctx.bad('negative-nontransferable', nt[0] < 0)
            if is_surplus_transfer(A):
                T += 1
                ctx.reach('surplus-transfer')
            if rational:
                tot = VOps.sum(votes + [nt], 1)
                ctx.bad('rational-total-not-exact', tot[0] != N * tot[1])
            else:
                tot = z3.Sum([v[0] for v in votes] + [nt[0]])
                ctx.bad('votes-created', tot > N * S)
                ctx.bad('votes-lost-beyond-rounding:T=%d' % min(T, 3), N * S - tot > 2 * N * T)
        elif method == 'meek':
            res = num(ctx, A['residual'])
            ctx.bad('negative-residual', res[0] < 0)
            if A['tag'] == 'round':
                dirty = False
            if ctx.rule == 'meek-prf':
                clean = A['tag'] in ('begin', 'end') or (A['tag'] in ('elect', 'tie', 'defeat') and not dirty)
            else:
                clean = A['tag'] in ('iterate', 'end')
            if rational:
                tot = VOps.sum(votes + [res], 1)
                ctx.bad('votes-created', tot[0] > N * tot[1])
                if clean or A['tag'] == 'begin':
                    ctx.bad('total-not-exact:%s' % A['tag'], tot[0] != N * tot[1])
            else:
                tot = z3.Sum([v[0] for v in votes] + [res[0]])
                ctx.bad('votes-created', tot > N * S)
                if clean:
                    ctx.reach('clean-snapshot')
                    ctx.bad('total-not-exact:%s' % A['tag'], tot != N * S)
                elif A['tag'] == 'begin':
                    # first preferences: only the split of equal-ranked ballots can truncate (one unit per share)
                    ctx.bad('votes-lost-beyond-rounding:begin', N * S - tot > ctx.n * N)
            if A['tag'] == 'defeat':
                dirty = True
        elif method == 'qpq':
            pass    # ballot-level invariant: mon_C02q (needs snapshots)


def mon_C02q(ctx):
    "QPQ: the fractional numbers of candidates elected by all ballots sum to the number elected"
    if ctx.exc is not None or ctx.method != 'qpq':
        return
    S = ctx.S
    geps = guarded_geps(ctx.E)
    last_stage_elected = 0
    for sn in ctx.snaps:
        if sn['tag'] not in ('round', 'transfer', 'end'):
            continue
        ctx.reach('qpq-stage')
        nel = sum(1 for c, (state, pend, vote, quot, kf) in sn['cands'].items() if state == 'elected')
        if sn['tag'] == 'end':
            # paragraph 2.5b: the remaining hopeful candidates are declared elected when the count ends, without any
            # ballot electing them; the ballots still account for those elected at the last stage boundary
            nel = last_stage_elected
        else:
            last_stage_elected = nel
        # weight*multiplier in Guarded: (w * m*S) // S == w*m
        tot = z3.Sum([lz(w) * exact_mult(m, S) for (idx, w, m, rk) in sn['ballots']] + [z3.IntVal(0)])
        d = tot - nel * S
        ctx.bad('qpq-elected-sum:%s' % sn['tag'], z3.Or(d >= geps, -d >= geps))
        for (idx, w, m, rk) in sn['ballots']:
            ctx.bad('qpq-negative-weight', lz(w) < 0)


mon_C02q.needs_snaps = True


def exact_mult(m_raw, S):
    "multiplier raw value (m*S) -> m as a z3 term"
    from symex.core import exact_div
    e = lz(m_raw)
    r = exact_div(e, S)
    if r is None:
        return e / S
    return r


# ---------------------------------------------------------------------------------------------------
# C04

def _cmpmode(ctx):
    "how 'reaches the quota' is read in this arithmetic: ('ge'|'gt', geps)"
    V = ctx.E.V
    if V.name == 'guarded' and V.guard > 0:
        return 'gt', guarded_geps(ctx.E)
    if V.name == 'rational':
        return 'gt', 0
    return 'ge', 1


def reaches_quota(ctx, v, q):
    "z3 condition: tally v (pair) reaches quota q (pair) in the arithmetic's own order"
    mode, geps = _cmpmode(ctx)
    if ctx.E.V.name == 'rational':
        return VOps.lt(q, v)
    if mode == 'gt':            # Guarded '>' : v - q >= geps
        return v[0] - q[0] >= geps
    return v[0] >= q[0]


def quota_formula_bad(ctx, q, total, key):
    """q (pair) must be the prescribed quota for `total` votes/ballots.
    total: ('ballots', N term) or ('raw', raw votes term) or ('rat', (num, den))"""
    E = ctx.E
    V = E.V
    k = ctx.seats + 1
    S = ctx.S
    integer_quota = ctx.rule in ('scotland', 'mpls') or (ctx.rule == 'wigm' and ctx.opts.get('integer_quota') in (True, 'true'))
    if integer_quota:
        N = total[1]
        if V.name == 'rational':
            ctx.bad(key, z3.Not(z3.And(q[1] == 1, (q[0] - 1) * k <= N, N < q[0] * k)))
        else:
            ctx.bad(key, z3.Not(z3.And(q[0] % S == 0, (q[0] / S - 1) * k <= N, N < (q[0] / S) * k)))
        return
    if V.name == 'rational':
        t = (total[1], 1) if total[0] == 'ballots' else total[1]
        ctx.bad(key, q[0] * k * t[1] != t[0] * q[1])
        return
    T = total[1] * S if total[0] == 'ballots' else total[1]
    if V.exact:     # guarded, guard > 0: truncated quotient, no epsilon
        ctx.bad(key, z3.Not(z3.And(q[0] * k <= T, T < (q[0] + 1) * k)))
    else:           # fixed / integer / guard=0: truncated quotient plus one unit
        ctx.bad(key, z3.Not(z3.And((q[0] - 1) * k <= T, T < q[0] * k)))


def mon_C04(ctx):
    if ctx.exc is not None:
        return
    E = ctx.E
    method = ctx.method
    acts = ctx.acts
    if method == 'wigm':
        for A in acts:
            quota_formula_bad(ctx, num(ctx, A['quota']), ('ballots', ctx.N), 'quota-formula')
        # record-level quota equals the one reported in actions
        ctx.reach('gregory-quota-checked')
    elif method == 'meek':
        dirty = False
        for A in acts:
            if A['tag'] == 'round':
                dirty = False
            if A['tag'] == 'begin':
                quota_formula_bad(ctx, num(ctx, A['quota']), ('ballots', ctx.N), 'quota-formula:begin')
            else:
                if ctx.rule == 'meek-prf':
                    clean = A['tag'] in ('elect', 'tie', 'defeat') and not dirty
                else:
                    clean = A['tag'] == 'iterate'
                if clean:
                    ctx.reach('meek-quota-checked')
                    v = num(ctx, A['votes'])
                    tot = ('rat', v) if E.V.name == 'rational' else ('raw', v[0])
                    quota_formula_bad(ctx, num(ctx, A['quota']), tot, 'quota-formula:%s' % A['tag'])
            if A['tag'] == 'defeat':
                dirty = True
    # second sentence: nobody holding a quota is excluded or passed over
    i = 0
    while i < len(acts):
        A = acts[i]
        if A['tag'] == 'defeat' and i > 0:
            j = i
            while j < len(acts) and acts[j]['tag'] == 'defeat':
                j += 1
            ref = acts[i - 1]                       # snapshot before the run of exclusions
            rcs = ref['cstate']
            nel = sum(1 for s in rcs.values() if s['state'] == 'elected')
            newly = [c for c in rcs if rcs[c]['state'] == 'hopeful' and acts[j - 1]['cstate'][c]['state'] == 'defeated']
            if nel < ctx.seats:                     # not the end-of-count clean-up
                ctx.reach('exclusion-checked')
                if method == 'qpq':
                    cs = A['cstate']
                    q = num(ctx, A['quota'])
                    for c, s in cs.items():
                        if s['state'] == 'hopeful' or c in newly:
                            ctx.bad('excluded-while-quotient-exceeds-quota', reaches_quota(ctx, num(ctx, s['quotient']), q))
                else:
                    q = num(ctx, ref['quota'])
                    for d in newly:
                        if ctx.rule == 'mpls' and d in ctx.U.undeclared:
                            continue
                        ctx.bad('excluded-while-holding-quota', reaches_quota(ctx, num(ctx, rcs[d]['vote']), q))
                    if ctx.rule != 'mpls':
                        for c, s in rcs.items():
                            if s['state'] == 'hopeful' and c not in newly:
                                ctx.bad('hopeful-with-quota-passed-over-at-exclusion',
                                        reaches_quota(ctx, num(ctx, s['vote']), q))
            i = j
            continue
        if A['tag'] == 'unpend' and i > 0 and ctx.rule in ('wigm', 'wigm-prf', 'wigm-prf-batch', 'scotland'):
            ref = acts[i - 1]
            q = num(ctx, ref['quota'])
            ctx.reach('surplus-choice-checked')
            for c, s in ref['cstate'].items():
                if s['state'] == 'hopeful':
                    ctx.bad('hopeful-with-quota-passed-over-at-transfer', reaches_quota(ctx, num(ctx, s['vote']), q))
        i += 1
    # nobody defeated holds a quota in the final snapshot (Minneapolis final-round losers keep their votes but are below it too)
    if acts and method == 'wigm':
        fin = acts[-1]
        q = num(ctx, fin['quota'])
        for c, s in fin['cstate'].items():
            if s['state'] == 'defeated' and not (ctx.rule == 'mpls' and c in ctx.U.undeclared):
                ctx.bad('defeated-holding-quota-at-end', reaches_quota(ctx, num(ctx, s['vote']), q))


# ---------------------------------------------------------------------------------------------------
# C05

def mon_C05(ctx):
    if ctx.exc is not None:
        return
    E = ctx.E
    if ctx.U.undeclared and ctx.rule == 'mpls':
        return
    if E.V.name == 'integer' and ctx.seats > 1:
        ctx.reach('skipped-integer-multiseat')
        return
    acts = ctx.acts
    first = [a for a in acts if a['tag'] in ('begin', 'count')]
    if not first:
        ctx.bad('no-initial-quota', TRUE)
        return
    q0 = num(ctx, first[0]['quota'])
    el = set(c.cid for c in E.elected)
    n = ctx.n
    S = ctx.S
    lines = ctx.U.lines
    wd = set(ctx.U.withdrawn)
    cands = [c for c in range(1, n + 1) if c not in wd]
    rankings = []
    for i, ln in enumerate(lines):
        if '=' in ln:
            rankings.append(None)       # equal-rank lines never count toward a solid coalition here
            continue
        r = [int(x) for x in ln.split() if int(x) not in wd]
        rankings.append(r)
    conds = []
    for k in range(1, len(cands)):
        for Sset in itertools.combinations(cands, k):
            Sset = set(Sset)
            solid = [ctx.ms[i] for i, r in enumerate(rankings) if r is not None and i in ctx.U.kept and
                     len(r) >= len(Sset) and set(r[:len(Sset)]) == Sset]
            if not solid:
                continue
            M = z3.Sum(solid)
            for kk in range(1, ctx.seats + 1):
                need = min(kk, len(Sset))
                if len(el & Sset) < need:
                    allowance = 2 * ctx.N * n
                    if E.V.name == 'rational':
                        # M > kk*q0 (+0 allowance: exact arithmetic)
                        conds.append(M * q0[1] > kk * q0[0])
                    else:
                        conds.append(M * S > kk * q0[0] + allowance)
    ctx.reach('coalitions-checked')
    if conds:
        ctx.bad('solid-coalition-underrepresented', z3.Or(*conds))


# ---------------------------------------------------------------------------------------------------
# C09

_OK = {('H', 'H'), ('H', 'e'), ('H', 'E'), ('H', 'D'), ('e', 'e'), ('e', 'E'), ('E', 'E'), ('D', 'D'), ('W', 'W')}


def mon_C09(ctx):
    if ctx.exc is not None:
        return
    E = ctx.E
    acts = ctx.acts
    prev = None
    electable = len(ctx.electable())
    want = min(ctx.seats, electable)
    defeat_round = None
    for A in acts:
        cs = A['cstate']
        nel = sum(1 for s in cs.values() if s['state'] == 'elected')
        nhop = sum(1 for c, s in cs.items() if s['state'] == 'hopeful' and not (ctx.rule == 'mpls' and c in ctx.U.undeclared))
        if nel > ctx.seats:
            ctx.bad('elected-exceed-seats', TRUE)
        if A['tag'] == 'defeat' and nel + nhop < want:
            ctx.bad('exclusion-leaves-too-few', TRUE)
        if prev is not None:
            if A['round'] < prev['round']:
                ctx.bad('round-decreased', TRUE)
            for c in cs:
                a, b = prev['cstate'][c]['code'], cs[c]['code']
                if (a, b) in _OK:
                    continue
                if ctx.rule == 'qpq' and (a, b) == ('E', 'H') and defeat_round is not None and A['round'] == defeat_round + 1:
                    ctx.reach('qpq-restart')
                    continue
                ctx.bad('status-%s-to-%s' % (a, b), TRUE)
        if A['tag'] == 'defeat':
            defeat_round = A['round']
        prev = A
    ctx.reach('history-walked')
