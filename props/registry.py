"""Property registry: property id -> (jobs, texts) per tier."""
from props import grid

COUNT_ASSUME = [
    'bounded: only elections within the stated universe (candidates, ranking length, ballot total, seats, option configurations) are covered',
    'z3 5.1.0 decides every path condition (linear integer arithmetic with div/mod by constants); any unknown makes the run inconclusive',
    'shims listed under coverage.stubs are behaviour-preserving (Ballot.vote summary is lemma-checked by C10; every path is re-run on the pristine code and compared field by field)',
    'ballot lines with multiplicity 0 (not expressible in a BLT file) are inert; counterexamples are replayed on the pristine reader and counter without them',
    'CPython 3.12 built-ins and fractions.Fraction are trusted',
]

LEVEL_COUNT = ('bounded symbolic execution of the real droop code (SYMEX over z3): every feasible path of Election.count() over all '
               'multisets of ballots within the bounds is explored; on each path the property is discharged as unsat of its negation; '
               'counterexamples are replayed on the pristine code before being reported')


def _count(prop, monitors, require, tier, **kw):
    jobs = grid.base_grid(tier, monitors, **kw)
    return dict(jobs=jobs, level_text=LEVEL_COUNT, assumptions=COUNT_ASSUME, require_reach=require, bounds=grid.bounds_text(jobs))


def C01(tier):
    return _count('C01', ['C01'], ['count-returned', 'withdrawn-present'], tier)


def C02(tier):
    return _count('C02', ['C02', 'C02q'], ['surplus-transfer', 'clean-snapshot', 'qpq-stage'], tier)


def C04(tier):
    return _count('C04', ['C04'], ['gregory-quota-checked', 'meek-quota-checked', 'exclusion-checked', 'surplus-choice-checked'], tier)


def C05(tier):
    return _count('C05', ['C05'], ['coalitions-checked'], tier, withdrawn=True)


def C09(tier):
    return _count('C09', ['C09'], ['history-walked', 'qpq-restart'], tier)


def C06(tier):
    return _count('C06', ['C06'], ['quiescent-point', 'surplus-transfer-checked', 'exclusion-transfer-checked'], tier, gregory_only=True)


def C07(tier):
    return _count('C07', ['C07'], ['tie', 'single-exclusion', 'batch-exclusion', 'surplus-choice', 'tie-by-prior-stage'], tier, symtie=True)


def C08(tier):
    return _count('C08', ['C08'], ['clean-snapshot', 'omega-exit', 'elected-exit'], tier, meek_only=True)


def C18(tier):
    return _count('C18', ['C18'], ['audit-trail-walked'], tier)


# ---------------------------------------------------------------------------------------------------
# leaf laws

PRECISIONS_Q = [0, 1, 2, 3, 4, 5, 6, 9]
PRECISIONS_T = [0, 1, 2, 3, 4, 5, 6, 7, 8, 9, 12, 18]

LEAF_ASSUME = [
    'operands (raw scaled integers, numerators) are unbounded mathematical integers; precision / guard / display digits are enumerated, not symbolic',
    'rational laws: denominators (and the numerator of a divisor) range over 1..D and are enumerated through the solver',
    'z3 5.1.0 nonlinear integer arithmetic decides each query; unknown = inconclusive',
    'int()/isinstance() shadowed inside the value modules so that proxies pass; math.gcd replaced by an exact symbolic gcd for fractions',
]
LEVEL_LEAF = ('symbolic execution of the real value-class methods on unbounded symbolic raw operands; each law is a z3 query '
              '(unsat of the negated multiplication-only oracle) per feasible path; counterexamples replayed on the pristine classes')


def _chunks(obs, k):
    out = [[] for _ in range(k)]
    for i, o in enumerate(obs):
        out[i % k].append(o)
    return [c for c in out if c]


def _leaf(obs, funcs, nchunks=16, require=()):
    jobs = [dict(kind='leaf', name='leaf-chunk-%d' % i, obligations=c, functions=funcs, budget_s=900, ob_budget_s=200)
            for i, c in enumerate(_chunks(obs, nchunks))]
    return dict(jobs=jobs, level_text=LEVEL_LEAF, assumptions=LEAF_ASSUME, require_reach=list(require))


FIXED_FUNCS = ['values/fixed.py:Fixed.%s' % f for f in ('__init__', '__add__', '__sub__', '__neg__', '__pos__', '__abs__', '__mul__',
                                                        '__floordiv__', 'mul', 'div', 'muldiv', '__eq__', '__ne__', '__lt__',
                                                        '__le__', '__gt__', '__ge__', 'min', 'initialize')]
RAT_FUNCS = ['values/rational.py:Rational.%s' % f for f in ('__new__', 'mul', 'div', 'muldiv', 'min', '_wrap_method.<locals>.x', 'initialize')]
GUARD_FUNCS = ['values/guarded.py:Guarded.%s' % f for f in ('__init__', '__cmp__', '__eq__', '__ne__', '__lt__', '__le__', '__gt__',
                                                             '__ge__', '__add__', '__sub__', '__neg__', '__pos__', '__abs__',
                                                             '__mul__', '__floordiv__', 'mul', 'div', 'muldiv', 'min', 'initialize')]


def C12(tier):
    from props import laws
    ps = PRECISIONS_Q if tier != 'thorough' else PRECISIONS_T
    obs = [[law, {'p': p}] for p in ps for law in laws.FIXED_LAWS]
    D = 6 if tier != 'thorough' else 12
    obs += [[law, {'D': D}] for law in laws.RATIONAL_LAWS]
    r = _leaf(obs, FIXED_FUNCS + RAT_FUNCS, require=list(laws.FIXED_LAWS) + list(laws.RATIONAL_LAWS))
    r['bounds'] = dict(precisions=ps, operands='unbounded', rational_denominators='1..%d' % D, divisor_numerators='-%d..%d, nonzero' % (D, D))
    return r


def C14(tier):
    obs = []
    ps = [0, 1, 2, 3, 4, 6, 9] if tier != 'thorough' else PRECISIONS_T
    for p in ps:
        for d in sorted(set([0, 1, p // 2, max(p - 1, 0), p, p + 2])):
            obs.append(['str_fixed', {'p': p, 'd': d}])
    gs = [0, 1, 2, 4] if tier != 'thorough' else [0, 1, 2, 3, 4, 6, 9]
    for p in ([0, 1, 3, 4, 9] if tier != 'thorough' else [0, 1, 2, 3, 4, 6, 9, 18]):
        for g in gs:
            for d in sorted(set([0, 1, p, p + 1, p + g, p + g + 3, max(p - 1, 0)])):
                obs.append(['str_guarded', {'p': p, 'g': g, 'd': d}])
    D = 6 if tier != 'thorough' else 12
    for d in ([0, 1, 3, 12] if tier != 'thorough' else [0, 1, 2, 3, 6, 12, 20]):
        obs.append(['str_rational', {'d': d, 'D': D}])
    r = _leaf(obs, ['values/fixed.py:Fixed.__str__', 'values/guarded.py:Guarded.__str__', 'values/rational.py:Rational.__str__'],
              require=['str_fixed', 'str_guarded', 'str_rational'])
    r['bounds'] = dict(value='unbounded raw integer / numerator', rational_denominators='1..%d' % D, grids=len(obs))
    return r


def C13(tier):
    from props import laws
    obs = []
    ps = [0, 1, 2, 3, 4, 6, 9] if tier != 'thorough' else PRECISIONS_T
    gs = [0, 1, 2, 3, 4, 9] if tier != 'thorough' else [0, 1, 2, 3, 4, 5, 6, 7, 8, 9]
    for p in ps:
        for g in gs:
            obs.append(['gd_cmp_law', {'p': p, 'g': g}])
        for law in [l for l in laws.GUARDED_LAWS if l.startswith('g0_')]:
            obs.append([law, {'p': p}])
    r = _leaf(obs, GUARD_FUNCS + FIXED_FUNCS, require=list(laws.GUARDED_LAWS))
    r['bounds'] = dict(precisions=ps, guards=gs, operands='unbounded')
    return r


TOKEN_ASSUME = [
    'the reader is driven from its token interface (after str.splitlines/str.split): character-level behaviour of those built-ins, of re and of int() is trusted CPython',
    'symbolic tokens range over the finite alphabet listed in bounds (every token class the reader distinguishes plus boundary cases); edits are one (thorough: two) symbolic token(s) replaced in / inserted into the templates, every position',
    'z3 decides every query (index constraints, linear); unknown = inconclusive',
]
LEVEL_TOKEN = ('symbolic execution of the real BLT reader (and Election constructor) on token streams whose tokens are solver variables over a finite '
               'alphabet; each feasible path ends in a profile error, an accepted profile satisfying the invariants, or a counterexample that is '
               'rendered to text and replayed on the pristine reader')


def _texts_trunc():
    from harness import tokrun
    texts = []
    for name, t in tokrun.TEMPLATES.items():
        base = tokrun.flat(t)
        for k in range(len(base) + 1):
            texts.append(' '.join(base[:k]))
            texts.append('\n'.join(base[:k]))
        for k in range(len(base)):
            texts.append(' '.join(base[:k] + base[k + 1:]))
    texts += ['', ' ', '\n', '\ufeff', '\ufeff3 1 1 1 0 0 "a" "b" "c" "t"']
    return texts


def C16(tier):
    from harness import tokrun
    jobs = []
    Ls = [1, 2, 3] if tier != 'thorough' else [1, 2, 3, 4]
    for L in Ls:
        for layout in ('one-line', 'per-line'):
            if L == 4:
                # split the 4-token soups by the first token class to spread them over workers
                for pfx in (['1'], ['2'], ['3'], ['x']):
                    jobs.append(dict(kind='token', name='soup L=1+3 prefix=%s %s' % (pfx, layout), mode='soup', L=3, prefix=pfx, layout=layout,
                                     budget_s=1500, weight=10))
            else:
                jobs.append(dict(kind='token', name='soup L=%d %s' % (L, layout), mode='soup', L=L, layout=layout, budget_s=600,
                                 weight=L * L))
    for name, t in tokrun.TEMPLATES.items():
        n = len(tokrun.flat(t))
        for edit in ('replace', 'insert'):
            pos = list(range(n + (1 if edit == 'insert' else 0)))
            half = len(pos) // 2
            for part in (pos[:half], pos[half:]):
                jobs.append(dict(kind='token', name='%s %s positions %d..%d' % (name, edit, part[0], part[-1]), mode='edit', template=name,
                                 edit=edit, positions=part, budget_s=600, weight=3))
    if tier == 'thorough':
        import itertools
        for name in ('tiny', 'plain'):
            n = len(tokrun.flat(tokrun.TEMPLATES[name]))
            pairs = list(itertools.combinations(range(n), 2))
            for i in range(0, len(pairs), 8):
                jobs.append(dict(kind='token', name='%s two edits %s' % (name, pairs[i:i + 8]), mode='edit2', template=name, pairs=pairs[i:i + 8],
                                 budget_s=1500, weight=6, validate_every=5))
    jobs.append(dict(kind='token', name='truncations and deletions (concrete)', mode='concrete', texts=_texts_trunc(), budget_s=300))
    jobs.append(dict(kind='token', name='ranking array typecode law (symbolic candidate count)', mode='array', budget_s=300))
    return dict(jobs=jobs, level_text=LEVEL_TOKEN, assumptions=TOKEN_ASSUME,
                require_reach=['error', 'accepted', 'typecode-B', 'typecode-H'],
                bounds=dict(alphabet=tokrun.ALPHABET, soup_lengths=Ls, templates={k: ' '.join(tokrun.flat(v)) for k, v in tokrun.TEMPLATES.items()},
                            edits='one symbolic token replaced / inserted at every position' + ('; two replaced on tiny, plain' if tier == 'thorough' else ''),
                            candidate_count_for_array_law='1..10^7', rules_constructed=tokrun.RULES))


REGISTRY = {k: v for k, v in globals().items() if k[0] == 'C' and k[1:].isdigit()}
