"""Property registry: property id -> (jobs, texts) per tier."""
from props import grid

COUNT_ASSUME = [
    'bounded: only elections within the stated universe (candidates, ranking length, ballot total, seats, option configurations) are covered',
    'z3 5.1.0 decides every path condition (linear integer arithmetic with div/mod by constants); any unknown makes the run inconclusive',
    'shims listed under coverage.stubs are behaviour-preserving (Ballot.vote summary is lemma-checked by C10; every path is re-run on the pristine code and compared field by field)',
    'ballot lines with multiplicity 0 (not expressible in a BLT file) are inert; counterexamples are replayed on the pristine reader and counter without them',
    'CPython 3.12 built-ins and fractions.Fraction are trusted',
]

LEVEL_COUNT = ('bounded symbolic execution of the real droop code (SYMEX over z3): every feasible path of Election.count() over all '
               'multisets of ballots within the bounds is explored; on each path the property is discharged as unsat of its negation; '
               'counterexamples are replayed on the pristine code before being reported')


def _count(prop, monitors, require, tier, **kw):
    jobs = grid.base_grid(tier, monitors, **kw)
    # vacuity guard: the same harness with an assertion that is False must come back violated
    jobs.append(grid.job('wigm-prf', {}, 3, 2, 2, 4, ['TWIN'], 120, twin=True, max_per_key=1, name='vacuity twin (assert False)'))
    return dict(jobs=jobs, level_text=LEVEL_COUNT, assumptions=COUNT_ASSUME, require_reach=require, bounds=grid.bounds_text(jobs))


def C01(tier):
    return _count('C01', ['C01'], ['count-returned', 'withdrawn-present'], tier)


def C02(tier):
    return _count('C02', ['C02', 'C02q'], ['surplus-transfer', 'clean-snapshot', 'qpq-stage'], tier)


def C04(tier):
    return _count('C04', ['C04', 'C04q'], ['gregory-quota-checked', 'meek-quota-checked', 'exclusion-checked', 'surplus-choice-checked', 'qpq-quota-checked'], tier)


def C05(tier):
    return _count('C05', ['C05'], ['coalitions-checked'], tier, withdrawn=True, more=1)


def C09(tier):
    return _count('C09', ['C09'], ['history-walked', 'qpq-restart'], tier)


def C06(tier):
    return _count('C06', ['C06'], ['quiescent-point', 'surplus-transfer-checked', 'exclusion-transfer-checked'], tier, gregory_only=True)


def C07(tier):
    r = _count('C07', ['C07'], ['tie', 'single-exclusion', 'batch-exclusion', 'surplus-choice', 'tie-by-prior-stage'], tier, symtie=True)
    # when no tie is logged the record does not depend on the tie-break order: second count with an independent symbolic permutation
    quick = tier != 'thorough'
    for rule, opts in RULE_CFGS:
        slow = rule in ('qpq', 'meek-prf') or opts.get('arithmetic') == 'guarded'
        r['jobs'].append(djob('tie2', rule, opts, 3, 2, 2 if slow else 3, (4 if slow else 5) + (0 if quick else 1), symtie=True, budget=600 if quick else 1500))
    if not quick:
        for rule, opts in [('wigm-prf-batch', {}), ('scotland', {}), ('cfer-batch', {}), ('mpls', {})]:
            r['jobs'].append(djob('tie2', rule, opts, 4, 2, 2, 5, symtie=True, budget=1500, weight=5))
    # a concrete, non-self-inverse [tie ...] option read by the real reader (the symbolic tie ranks above are injected after parsing)
    for rule, opts in [('scotland', {}), ('wigm-prf', {}), ('meek', FX3), ('qpq', {})]:
        r['jobs'].append(grid.job(rule, opts, 3, 2, 2, 5 if rule != 'qpq' else 4, ['C07'], 300 if quick else 1500, tie_list=[2, 3, 1]))
    r['jobs'].append(grid.job('cfer', {}, 4, 2, 1, 6, ['C07'], 300 if quick else 1500, tie_list=[3, 1, 4, 2]))
    r['require_reach'] = r['require_reach'] + ['no-tie-logged', 'tie-logged']
    r['assumptions'] = r['assumptions'] + DIFF_ASSUME[-1:]
    return r


def C08(tier):
    return _count('C08', ['C08'], ['clean-snapshot', 'omega-exit', 'elected-exit', 'stable-exit-compared'], tier, meek_only=True)


def _render_jobs(tier):
    jobs = []
    quick = tier != 'thorough'
    for rule, opts in RULE_CFGS + [('wigm', grid.RAT)]:
        slow = rule in ('qpq', 'meek-prf') or opts.get('arithmetic') in ('guarded', 'rational')
        for N in ((4,) if quick else (4, 5)):
            jobs.append(grid.job(rule, opts, 3, 2, 2, N if not slow else 4, ['C18r'], 300 if quick else 1500, markers=True, fixed_total=True, weight=2))
    return jobs


def C18(tier):
    r = _count('C18', ['C18'], ['audit-trail-walked', 'qpq-restart-implied'], tier)
    # candidates sharing a name (the BLT format allows it): the audit trail must still list every status change
    for rule, opts in [('wigm', grid.FX2), ('scotland', {}), ('mpls', {}), ('meek', {'arithmetic': 'fixed', 'precision': 3, 'omega': 2}), ('wigm-prf', {})]:
        r['jobs'].append(grid.job(rule, opts, 3, 2, 3, 6 if tier != 'thorough' else 8, ['C18'], 300 if tier != 'thorough' else 1500, names=['Smith', 'Smith', 'Jones']))
    r['jobs'] += _render_jobs(tier)
    r['require_reach'] = r['require_reach'] + ['renderings-compared']
    return r


# ---------------------------------------------------------------------------------------------------
# leaf laws

PRECISIONS_Q = [0, 1, 2, 3, 4, 5, 6, 9]
PRECISIONS_T = [0, 1, 2, 3, 4, 5, 6, 7, 8, 9, 12, 18]

LEAF_ASSUME = [
    'operands (raw scaled integers, numerators) are unbounded mathematical integers; precision / guard / display digits are enumerated, not symbolic',
    'rational laws: denominators (and the numerator of a divisor) range over 1..D and are enumerated through the solver',
    'z3 5.1.0 nonlinear integer arithmetic decides each query; unknown = inconclusive',
    'int()/isinstance() shadowed inside the value modules so that proxies pass; math.gcd replaced by an exact symbolic gcd for fractions',
]
LEVEL_LEAF = ('symbolic execution of the real value-class methods on unbounded symbolic raw operands; each law is a z3 query '
              '(unsat of the negated multiplication-only oracle) per feasible path; counterexamples replayed on the pristine classes')


def _chunks(obs, k):
    out = [[] for _ in range(k)]
    for i, o in enumerate(obs):
        out[i % k].append(o)
    return [c for c in out if c]


def _leaf(obs, funcs, nchunks=16, require=()):
    obs = list(obs) + [['twin_false', {'p': 3}]]
    jobs = [dict(kind='leaf', name='leaf-chunk-%d' % i, obligations=c, functions=funcs, budget_s=1800, ob_budget_s=900)
            for i, c in enumerate(_chunks(obs, nchunks))]
    for j in jobs:
        j['twin'] = True
    return dict(jobs=jobs, level_text=LEVEL_LEAF, assumptions=LEAF_ASSUME, require_reach=list(require))


FIXED_FUNCS = ['values/fixed.py:Fixed.%s' % f for f in ('__init__', '__add__', '__sub__', '__neg__', '__pos__', '__abs__', '__mul__',
                                                        '__floordiv__', 'mul', 'div', 'muldiv', '__eq__', '__ne__', '__lt__',
                                                        '__le__', '__gt__', '__ge__', 'min', 'initialize')]
RAT_FUNCS = ['values/rational.py:Rational.%s' % f for f in ('__new__', 'mul', 'div', 'muldiv', 'min', '_wrap_method.<locals>.x', 'initialize')]
GUARD_FUNCS = ['values/guarded.py:Guarded.%s' % f for f in ('__init__', '__cmp__', '__eq__', '__ne__', '__lt__', '__le__', '__gt__',
                                                             '__ge__', '__add__', '__sub__', '__neg__', '__pos__', '__abs__',
                                                             '__mul__', '__floordiv__', 'mul', 'div', 'muldiv', 'min', 'initialize')]


def C12(tier):
    from props import laws
    ps = PRECISIONS_Q if tier != 'thorough' else PRECISIONS_T
    obs = [[law, {'p': p}] for p in ps for law in laws.FIXED_LAWS]
    # display digits below the working precision must not leak into the arithmetic
    for p, d in ([(2, 0), (4, 1)] if tier != 'thorough' else [(2, 0), (3, 1), (4, 1), (6, 2), (9, 0)]):
        obs += [[law, {'p': p, 'd': d}] for law in laws.FIXED_LAWS]
    D = 6 if tier != 'thorough' else 12
    for law in laws.RATIONAL_LAWS:
        if law == 'rt_mul':
            # two unbounded numerators over positive denominators; denominators of either sign with the second numerator in -D..D
            obs.append([law, {'D': D, 'posden': True}])
            obs.append([law, {'D': min(D, 8), 'smallc': True}])
        elif law == 'rt_int_mix':
            # the int operand and the denominator are realised: the path count grows with D squared
            obs.append([law, {'D': (3 if tier != 'thorough' else 6)}])
        else:
            obs.append([law, {'D': (D if law not in ('rt_div', 'rt_muldiv') else min(D, 8))}])
    r = _leaf(obs, FIXED_FUNCS + RAT_FUNCS, require=list(laws.FIXED_LAWS) + list(laws.RATIONAL_LAWS))
    r['bounds'] = dict(precisions=ps, operands='unbounded', rational_denominators='-%d..%d, nonzero (products of two unbounded numerators: positive denominators)' % (D, D), divisor_numerators='-%d..%d, nonzero' % (D, D))
    return r


def C14(tier):
    obs = []
    ps = [0, 1, 2, 3, 4, 6, 9] if tier != 'thorough' else PRECISIONS_T
    for p in ps:
        for d in sorted(set([0, 1, p // 2, max(p - 1, 0), p, p + 2])):
            obs.append(['str_fixed', {'p': p, 'd': d}])
    gs = [0, 1, 2, 4] if tier != 'thorough' else [0, 1, 2, 3, 4, 6, 9]
    for p in ([0, 1, 3, 4, 9] if tier != 'thorough' else [0, 1, 2, 3, 4, 6, 9, 18]):
        for g in gs:
            for d in sorted(set([0, 1, p, p + 1, p + g, p + g + 3, max(p - 1, 0)])):
                obs.append(['str_guarded', {'p': p, 'g': g, 'd': d}])
    D = 6 if tier != 'thorough' else 12
    for d in ([0, 1, 3, 12] if tier != 'thorough' else [0, 1, 2, 3, 6, 12, 20]):
        obs.append(['str_rational', {'d': d, 'D': D}])
    r = _leaf(obs, ['values/fixed.py:Fixed.__str__', 'values/guarded.py:Guarded.__str__', 'values/rational.py:Rational.__str__'],
              require=['str_fixed', 'str_guarded', 'str_rational'])
    r['bounds'] = dict(value='unbounded raw integer / numerator', rational_denominators='1..%d' % D, grids=len(obs))
    return r


def C13(tier):
    from props import laws
    obs = []
    ps = [0, 1, 2, 3, 4, 6, 9] if tier != 'thorough' else PRECISIONS_T
    gs = [0, 1, 2, 3, 4, 9] if tier != 'thorough' else [0, 1, 2, 3, 4, 5, 6, 7, 8, 9]
    for p in ps:
        for g in gs:
            obs.append(['gd_cmp_law', {'p': p, 'g': g}])
            # the comparison law does not depend on the display setting
            for d in sorted(set([0, max(p - 1, 0), p + 1, p + g])):
                if d != p:
                    obs.append(['gd_cmp_law', {'p': p, 'g': g, 'd': d}])
        for law in [l for l in laws.GUARDED_LAWS if l.startswith('g0_')]:
            obs.append([law, {'p': p}])
            if p >= 2 and law in ('g0_cmp', 'g0_arith', 'g0_ops'):
                obs.append([law, {'p': p, 'd': p - 2}])
    # printing with zero guard digits: both printed forms denote the same half-up rounding of the same stored value
    for p, d in ([(2, 0), (3, 1), (4, 2), (4, 4)] if tier != 'thorough' else [(1, 0), (2, 0), (2, 1), (3, 1), (4, 2), (4, 4), (6, 3), (9, 4)]):
        obs.append(['str_guarded', {'p': p, 'g': 0, 'd': d}])
        obs.append(['str_fixed', {'p': p, 'd': d}])
    r = _leaf(obs, GUARD_FUNCS + FIXED_FUNCS + ['values/guarded.py:Guarded.__str__', 'values/fixed.py:Fixed.__str__'], require=list(laws.GUARDED_LAWS) + ['str_guarded', 'str_fixed'])
    r['bounds'] = dict(precisions=ps, guards=gs, operands='unbounded')
    quick = tier != 'thorough'
    # (b) guard = 0 behaves like fixed in every count
    for rule in ('wigm', 'meek', 'warren'):
        for p in ((1, 3) if quick else (1, 2, 3, 4)):
            for seats in (1, 2):
                om = {} if rule == 'wigm' else {'omega': min(p, 2)}
                r['jobs'].append(djob('opts', rule, {}, 3, seats, 3, 5 if quick else 6,
                                      optionsA=dict(rule=rule, arithmetic='fixed', precision=p, **om),
                                      optionsB=dict(rule=rule, arithmetic='guarded', precision=p, guard=0, **om), ignore_msgs=False,
                                      budget=600 if quick else 1500, cfg='g0-vs-fixed p=%d' % p))
    # display digits different from the precision (they must not influence the comparison tolerance or the count)
    for rule, om in (('wigm', {}), ('meek', {'omega': 2})):
        for d in (0, 1):
            r['jobs'].append(djob('opts', rule, {}, 3, 2, 3, 5, optionsA=dict(rule=rule, arithmetic='fixed', precision=3, display=d, **om),
                                  optionsB=dict(rule=rule, arithmetic='guarded', precision=3, guard=0, display=d, **om), budget=600 if quick else 1500,
                                  cfg='g0-vs-fixed p=3 display=%d' % d))
    r['jobs'].append(djob('gq', 'wigm', {'display': 2}, 3, 2, 2, 4, p=4, g=4, budget=600 if quick else 1500, weight=5))
    # a tally landing exactly on the rounded-up quota needs a coarse precision and a few more ballots
    r['jobs'].append(djob('opts', 'wigm', {}, 3, 2, 2, 7, optionsA=dict(rule='wigm', arithmetic='fixed', precision=1),
                          optionsB=dict(rule='wigm', arithmetic='guarded', precision=1, guard=0), budget=600 if quick else 1500, cfg='g0-vs-fixed p=1 N<=7', weight=6))
    # (c) quasi-exact == exact when the comparison statistics show no near-tolerance comparison
    for rule, om in (('wigm', {}), ('meek', {'omega': 2}), ('warren', {'omega': 2})):
        for (p, g) in (((4, 4), (2, 1)) if quick else ((4, 4), (6, 3), (9, 9), (2, 1))):
            r['jobs'].append(djob('gq', rule, om, 3, 1 if rule != 'wigm' else 2, 2, 4, p=p, g=g, budget=600 if quick else 1500, weight=5))
    r['require_reach'] = r['require_reach'] + ['pair-compared', 'premise-holds']
    r['assumptions'] = r['assumptions'] + DIFF_ASSUME + ['(c) reads "statistics show no comparison near the tolerance" as maxDiff < geps/100 and minDiff > 100*geps']
    r['level_text'] = r['level_text'] + '; ' + LEVEL_DIFF
    r['bounds'].update(count_differentials=dict(candidates=3, ballots_max=5 if quick else 6, rational_leg='U(3,2,4,4)'))
    return r


TOKEN_ASSUME = [
    'the reader is driven from its token interface (after str.splitlines/str.split): character-level behaviour of those built-ins, of re and of int() is trusted CPython',
    'symbolic tokens range over the finite alphabet listed in bounds (every token class the reader distinguishes plus boundary cases); edits are one (thorough: two) symbolic token(s) replaced in / inserted into the templates, every position',
    'z3 decides every query (index constraints, linear); unknown = inconclusive',
]
LEVEL_TOKEN = ('symbolic execution of the real BLT reader (and Election constructor) on token streams whose tokens are solver variables over a finite '
               'alphabet; each feasible path ends in a profile error, an accepted profile satisfying the invariants, or a counterexample that is '
               'rendered to text and replayed on the pristine reader')


def _texts_trunc():
    from harness import tokrun
    texts = []
    for name, t in tokrun.TEMPLATES.items():
        base = tokrun.flat(t)
        for k in range(len(base) + 1):
            texts.append(' '.join(base[:k]))
            texts.append('\n'.join(base[:k]))
        for k in range(len(base)):
            texts.append(' '.join(base[:k] + base[k + 1:]))
    texts += ['', ' ', '\n', '\ufeff', '\ufeff3 1 1 1 0 0 "a" "b" "c" "t"']
    return texts


def C16(tier):
    from harness import tokrun
    jobs = []
    Ls = [1, 2, 3] if tier != 'thorough' else [1, 2, 3, 4]
    for L in Ls:
        for layout in ('one-line', 'per-line'):
            if L == 4:
                # split the 4-token soups by the first token class to spread them over workers
                for pfx in (['1'], ['2'], ['3'], ['x']):
                    jobs.append(dict(kind='token', name='soup L=1+3 prefix=%s %s' % (pfx, layout), mode='soup', L=3, prefix=pfx, layout=layout,
                                     budget_s=1500, weight=10))
            else:
                jobs.append(dict(kind='token', name='soup L=%d %s' % (L, layout), mode='soup', L=L, layout=layout, budget_s=600,
                                 weight=L * L))
    for name, t in tokrun.TEMPLATES.items():
        n = len(tokrun.flat(t))
        for edit in ('replace', 'insert'):
            pos = list(range(n + (1 if edit == 'insert' else 0)))
            half = len(pos) // 2
            for part in (pos[:half], pos[half:]):
                jobs.append(dict(kind='token', name='%s %s positions %d..%d' % (name, edit, part[0], part[-1]), mode='edit', template=name,
                                 edit=edit, positions=part, budget_s=600, weight=3))
    if tier == 'thorough':
        import itertools
        for name in ('tiny', 'plain'):
            n = len(tokrun.flat(tokrun.TEMPLATES[name]))
            pairs = list(itertools.combinations(range(n), 2))
            for i in range(0, len(pairs), 8):
                jobs.append(dict(kind='token', name='%s two edits %s' % (name, pairs[i:i + 8]), mode='edit2', template=name, pairs=pairs[i:i + 8],
                                 budget_s=1500, weight=6, validate_every=5))
    jobs.append(dict(kind='token', name='truncations and deletions (concrete)', mode='concrete', texts=_texts_trunc(), budget_s=600))
    jobs.append(dict(kind='token', name='ranking array typecode law (symbolic candidate count)', mode='array', budget_s=600))
    return dict(jobs=jobs, level_text=LEVEL_TOKEN, assumptions=TOKEN_ASSUME,
                require_reach=['error', 'accepted', 'typecode-B', 'typecode-H'],
                bounds=dict(alphabet=tokrun.ALPHABET, soup_lengths=Ls, templates={k: ' '.join(tokrun.flat(v)) for k, v in tokrun.TEMPLATES.items()},
                            edits='one symbolic token replaced / inserted at every position' + ('; two replaced on tiny, plain' if tier == 'thorough' else ''),
                            candidate_count_for_array_law='1..10^7', rules_constructed=tokrun.RULES))


def _layout_jobs(tier):
    from harness import tokrun
    import itertools
    jobs = []
    quick = tier != 'thorough'
    for st, T in tokrun.STRUCTS.items():
        gaps = tokrun.struct_gaps(T)
        nref = tokrun.struct_nrefs(T)
        blocks = [[['block', g]] for g in gaps[:-1]]
        if quick:
            gapsets = [[]] + [[g] for g in gaps] + blocks
        else:
            gapsets = [[]] + [[g] for g in gaps] + blocks + [list(p) for p in itertools.combinations(gaps, 2)] + [[['block', g], h] for g in gaps[:-1] for h in gaps]
        width = 3 if quick else 4
        windows = [list(range(i, i + width)) for i in range(1, max(nref, 1) + 1, width)] if nref else [[]]
        for w in windows:
            # spread the gap sets over a few jobs
            k = 1 if quick else 4
            for part in range(k):
                gs = gapsets[part::k]
                if gs:
                    jobs.append(dict(kind='token', mode='wellformed', name='well-formed %s refs %s gaps part %d' % (st, w, part), struct=st, symrefs=w,
                                     gapsets=gs, budget_s=600 if quick else 1500, weight=2))
    return jobs


def C15(tier):
    from harness import tokrun
    jobs = _layout_jobs(tier)
    return dict(jobs=jobs, level_text='symbolic execution of the real BLT reader on renderings of election structures written down independently of the reader: '
                'multipliers are numerals of unbounded symbolic ints, each candidate reference in a window is a symbolic choice between number and nickname, a symbolic comment '
                'token sits in one (thorough: two) of the gaps; on every path every public attribute of the parsed profile equals the structure (multipliers and ballot total by solver query)',
                assumptions=TOKEN_ASSUME + ['structures: harness/tokrun.py STRUCTS (5 elections: options, -n and [withdrawn], [undeclared], [tie], [nick], [droop], ballot ids, equal ranks, '
                                            'quoted names with spaces / comment markers, source and comment strings, a ballot naming only withdrawn candidates)'],
                require_reach=['accepted', 'layout-compared'],
                bounds=dict(structures=list(tokrun.STRUCTS), comment_tokens=tokrun.COMMENT_TOKENS, multipliers='1..10^9 symbolic', symbolic_reference_window=3 if tier != 'thorough' else 4,
                            gaps='end of every line, one at a time; a five-line comment block (ballot-like, nested comment, quoted text) after every line' + ('; all pairs' if tier == 'thorough' else '')))


# ---------------------------------------------------------------------------------------------------
# differential / metamorphic checks

FX3 = {'arithmetic': 'fixed', 'precision': 3, 'omega': 2}
RULE_CFGS = [('wigm', grid.FX2), ('wigm', grid.G44), ('wigm-prf', {}), ('wigm-prf-batch', {}), ('cfer', {}), ('cfer-batch', {}), ('scotland', {}),
             ('mpls', {}), ('qpq', {}), ('meek', FX3), ('warren', FX3), ('meek-prf', {})]

DIFF_ASSUME = COUNT_ASSUME + ['both elections of a pair are counted by the real code on the same path; numeric record fields are compared by solver query, '
                              'structure (tags, messages, statuses) concretely; counterexamples are rebuilt as two BLT texts and recounted on the pristine code, '
                              'where report/dump/json are compared byte for byte as well']
LEVEL_DIFF = ('differential bounded symbolic execution of the real code: two (or more) elections derived from the same symbolic ballots are counted on every '
              'feasible path and their records compared; unsat of "some field differs" on every path')


def djob(mode, rule, opts, n, seats, maxlen, N, budget=600, **kw):
    d = dict(kind='diff', mode=mode, rule=rule, opts=dict(opts), n=n, seats=seats, maxlen=maxlen, N=N, budget_s=budget, weight=kw.pop('weight', 2))
    d['name'] = '%s %s %s n=%d seats=%d len<=%d N<=%d %s' % (mode, rule, ','.join('%s=%s' % kv for kv in sorted(opts.items())), n, seats, maxlen, N,
                                                          ' '.join('%s=%s' % kv for kv in sorted(kw.items()) if kv[0] not in ('optionsA', 'optionsB', 'batch')))
    d.update(kw)
    return d


def C10(tier):
    jobs = []
    quick = tier != 'thorough'
    N = 5 if quick else 6
    for rule, opts in RULE_CFGS:
        slow = rule in ('qpq', 'meek-prf') or opts.get('arithmetic') == 'guarded'
        for seats in ((2,) if quick else (1, 2)):
            # (guarded arithmetic at the thorough tier: one ballot fewer, the 5-ballot universe takes 1300 s of a 1500 s budget)
            gslow = (not quick) and opts.get('arithmetic') == 'guarded'
            jobs.append(djob('split', rule, opts, 3, seats, 2 if (slow and quick) else 3, N - (1 if slow else 0) - (1 if gslow else 0), budget=600 if quick else 1500))
    if not quick:
        for rule, opts in [('wigm-prf-batch', {}), ('cfer-batch', {}), ('mpls', {}), ('meek', FX3)]:
            jobs.append(djob('split', rule, opts, 4, 2, 2, 5, budget=1500))
        jobs.append(djob('split', 'wigm', grid.RAT, 3, 2, 2, 4, budget=1500))
    # equal-rank lines (shares of 1/2 and 1/3 of a ballot): splitting or merging such a line must not matter either
    for rule in ('meek', 'warren'):
        jobs.append(djob('split', rule, FX3, 3, 2, 2, 5 if quick else 6, budget=600 if quick else 1500, equal=grid.EQUAL_LINES))
    # comparison statistics printed under guarded arithmetic: a zero-free universe (every line and every part exists in the file)
    for rule, opts in [('wigm', grid.G44), ('meek', dict(grid.G44, omega=2)), ('warren', dict(grid.G44, omega=2))]:
        jobs.append(djob('split', rule, opts, 3, 2, 2, 8 if quick else 10, nozero=True, lines=['1 2', '2 1', '3'], budget=600 if quick else 1500))
    # zero-free supports: every pair (thorough: also triple) of distinct rankings, each line present with multiplicity >= 1 and
    # split (both parts present) or not -- no ballot line of multiplicity 0 exists in these runs
    import itertools
    from harness.universe import all_rankings
    sup_rules = [('wigm', grid.FX2), ('wigm-prf', {}), ('cfer', {}), ('scotland', {}), ('mpls', {}), ('meek', FX3), ('qpq', {})]
    if not quick:
        sup_rules = RULE_CFGS
    for (n, seats, maxlen, Nn) in ([(4, 3, 2, 5)] if quick else [(4, 3, 3, 5), (3, 2, 3, 6)]):
        lines = all_rankings(n, maxlen)
        batch = []
        for a, b in itertools.combinations(range(len(lines)), 2):
            for mask in ([1, 0], [0, 1], [1, 1]):
                batch.append(dict(lines=[lines[a], lines[b]], splitmask=mask))
        if not quick and n == 3:
            for a, b, c in itertools.combinations(range(len(lines)), 3):
                batch.append(dict(lines=[lines[a], lines[b], lines[c]], splitmask=[1, 1, 1]))
        nchunk = 2 if quick else 8
        for rule, opts in sup_rules:
            for k in range(nchunk):
                jobs.append(djob('split', rule, opts, n, seats, maxlen, Nn, nozero=True, batch=batch[k::nchunk], validate_every=5,
                                 budget=600 if quick else 1500, chunk='%d/%d of %d zero-free supports' % (k + 1, nchunk, len(batch)), weight=4))
    tj = _layout_jobs(tier)
    jobs.append(djob('opts', 'wigm', {}, 3, 2, 2, 4, optionsA=dict(rule='wigm-prf'), optionsB=dict(rule='scotland'), budget=300, twin_job=True, max_per_key=1,
                     cfg='vacuity twin: two different rules must be reported as different'))
    return dict(jobs=jobs + tj, level_text=LEVEL_DIFF + '; plus token-mode layout variants of the reader (see C15)', assumptions=DIFF_ASSUME + TOKEN_ASSUME,
                require_reach=['pair-compared', 'layout-compared'],
                bounds=dict(presentations='ballot lines reversed and every line split in two with multipliers m-s and s (0<=s<=m symbolic)',
                            candidates=3, ballots_max=N, rules=[r for r, _ in RULE_CFGS], layout='see C15 evidence'))


def C11(tier):
    jobs = []
    quick = tier != 'thorough'
    for rule, opts in RULE_CFGS:
        slow = rule in ('qpq', 'meek-prf') or opts.get('arithmetic') == 'guarded'
        jobs.append(djob('perm', rule, opts, 3, 2, 2 if slow else 3, 4 if slow else 5, symtie=True, budget=600 if quick else 1500, weight=4))
        if not quick:
            jobs.append(djob('perm', rule, opts, 3, 1, 3, 5, symtie=True, budget=1500, weight=4))
        for w in ((2,) if quick else (1, 2, 4)):
            jobs.append(djob('withdraw', rule, opts, 4, 2, 2, 5 if not slow else 4, w=w, budget=600 if quick else 1500, weight=3))
    # two candidates withdrawn at once (adjacent on some ballots)
    for rule, opts in ([('wigm', grid.FX2), ('scotland', {}), ('meek', FX3), ('cfer', {})] if quick else RULE_CFGS):
        # (guarded arithmetic: rankings of two; with rankings of three this job needs about 1400 s of its 1500 s budget)
        jobs.append(djob('withdraw', rule, opts, 4, 1, 2 if opts.get('arithmetic') == 'guarded' else 3, 4, w=[2, 3], budget=600 if quick else 1500, weight=3))
    # a withdrawn candidate inside an equal-rank group
    for rule, opts in [('meek', FX3), ('warren', FX3), ('scotland', {}), ('wigm', grid.FX2)]:
        jobs.append(djob('withdraw', rule, opts, 3, 1, 2, 5, w=2, equal=['1=2 3', '2=3 1', '1 2=3', '3 1=2'], budget=600, weight=1))
    jobs.append(djob('withdraw', 'meek', FX3, 4, 2, 1, 4, w=2, equal=['1=2 3', '2=3 4', '1 2=4', '3=4 2=1'], budget=600 if quick else 1500, weight=2))
    # a three-way tie decided by an earlier stage: four candidates
    jobs.append(djob('perm', 'scotland', {}, 4, 2, 2, 5, symtie=True, perm_limit=4 if quick else 12, budget=600 if quick else 1500, weight=8))
    if not quick:
        for rule, opts in [('wigm-prf', {}), ('cfer-batch', {}), ('meek', FX3)]:
            jobs.append(djob('perm', rule, opts, 4, 2, 2, 5, symtie=True, perm_limit=6, budget=1500, weight=6))
    jobs.append(djob('opts', 'wigm', {}, 3, 2, 2, 4, optionsA=dict(rule='wigm-prf'), optionsB=dict(rule='scotland'), budget=300, twin_job=True, max_per_key=1,
                     cfg='vacuity twin: two different rules must be reported as different'))
    return dict(jobs=jobs, level_text=LEVEL_DIFF, assumptions=DIFF_ASSUME, require_reach=['pair-compared'],
                bounds=dict(renumbering='all permutations of 3 candidate ids (thorough: 6 sampled of 4), names, tie ranks (symbolic) and rankings carried along',
                            withdrawal='candidate w of 4 withdrawn vs deleted from the list and every ranking', ballots_max=5,
                            rules=[r for r, _ in RULE_CFGS]))


PERTURB = [
    ({'arithmetic': 'rational', 'precision': 7, 'display': 3}, 'arithmetic=rational precision=7 display=3'),
    ({'arithmetic': 'guarded', 'precision': 12, 'guard': 5, 'omega': 3}, 'arithmetic=guarded precision=12 guard=5 omega=3'),
    ({'arithmetic': 'integer', 'integer_quota': True, 'defeat_batch': 'none', 'display': 0}, 'integer integer_quota=true defeat_batch=none display=0'),
]
STATUTORY = ['wigm-prf', 'wigm-prf-batch', 'meek-prf', 'scotland', 'mpls', 'cfer', 'cfer-batch', 'qpq']


def C17(tier):
    jobs = [dict(kind='misc', mode='options', name='option layers: presence 2^4 x symbolic values', budget_s=600,
                 names=['precision', 'omega', 'display', 'guard', 'zzz'])]
    quick = tier != 'thorough'
    for rule in STATUTORY:
        slow = rule in ('qpq', 'meek-prf')
        for k, (pd, ptxt) in enumerate(PERTURB):
            if quick and (k + STATUTORY.index(rule)) % 3 != 0 and rule not in ('scotland',):
                srcs = ['cmd'] if k == STATUTORY.index(rule) % 3 else []
            else:
                srcs = ['cmd', 'file', 'both']
            for src in srcs:
                optsB = dict(rule=rule)
                extraB = ''
                if src in ('cmd', 'both'):
                    optsB.update(pd)
                if src in ('file', 'both'):
                    extraB = '[droop %s]' % ptxt
                jobs.append(djob('opts', rule, {}, 3, 2, 2 if slow else 3, 4 if slow else 5, optionsA=dict(rule=rule), optionsB=optsB, extraB=extraB,
                                 budget=600 if quick else 1500, perturb='%s:%d' % (src, k)))
    # report header lines and the record's option layers, on every path of a small count (ballot total fixed: the header prints it)
    FORCED = {'scotland': dict(arithmetic='fixed', precision=5, display=5), 'mpls': dict(arithmetic='fixed', precision=4, display=4),
              'wigm-prf': dict(arithmetic='fixed', precision=4, display=4), 'cfer': dict(arithmetic='fixed', precision=5, display=5),
              'meek-prf': dict(arithmetic='fixed', precision=9, display=9, omega=6), 'qpq': dict(arithmetic='guarded', precision=9, guard=9, display=9)}
    for rule, forced in FORCED.items():
        cmd = {'arithmetic': 'rational', 'precision': forced['precision'], 'omega': 3, 'bogus': 1}
        filed = {'precision': 7, 'guard': 2, 'display': forced['display']}
        supplied = dict(filed)
        supplied.update(cmd)
        declared = set(forced) | {'defeat_batch'} if False else set(forced)
        unused = sorted(k for k in set(cmd) | set(filed) if k not in declared)
        overridden = sorted(k for k in forced if k in supplied and supplied[k] != forced[k])
        jobs.append(grid.job(rule, cmd, 3, 2, 2, 4, ['C17h'], 300, fixed_total=True, droop_line=' '.join('%s=%s' % kv for kv in filed.items()),
                             expect_unused=unused, expect_overridden=overridden, expect_file=filed, expect_force=forced, weight=2))
    jobs.append(djob('opts', 'wigm', {}, 3, 2, 2, 4, optionsA=dict(rule='wigm-prf'), optionsB=dict(rule='scotland'), budget=300, twin_job=True, max_per_key=1,
                     cfg='vacuity twin: two different rules must be reported as different'))
    return dict(jobs=jobs, level_text=LEVEL_DIFF + '; option layering: the real Options methods run on symbolic option values for every presence pattern of the four layers',
                assumptions=DIFF_ASSUME, require_reach=['pair-compared', 'layer-assignments', 'header-checked'],
                bounds=dict(perturbations=[p for _, p in PERTURB], sources=['caller', '[droop ...] line', 'both'], statutory_rules=STATUTORY,
                            candidates=3, ballots_max=5))


def C19(tier):
    jobs = []
    quick = tier != 'thorough'
    for rule, opts in RULE_CFGS:
        slow = rule in ('qpq', 'meek-prf') or opts.get('arithmetic') == 'guarded'
        for N in ((4,) if quick else (3, 4, 5)):
            jobs.append(dict(kind='misc', mode='interrupt', name='interrupt %s %s n=3 seats=2 len<=2 N=%d' % (rule, sorted(opts.items()), N), rule=rule,
                             opts=dict(opts), n=3, seats=2, maxlen=2, N=N, budget_s=600 if quick else 1500, weight=3 if slow else 1))
    # validation against the real thing: a genuine KeyboardInterrupt at every package line event of one concrete count per rule
    texts = ['3 2\n2 1 2 0\n1 2 3 0\n1 3 1 0\n1 2 0\n0\n"A"\n"B"\n"C"\n"T"\n', '4 2\n3 1 2 0\n2 2 1 3 0\n2 3 4 0\n1 4 0\n1 3 0\n0\n"A"\n"B"\n"C"\n"D"\n"T"\n']
    for rule, opts in RULE_CFGS + [('meek', dict(grid.RAT, omega=2)), ('warren', dict(grid.RAT, omega=2))]:
        jobs.append(dict(kind='misc', mode='sweep', name='real interrupts %s %s' % (rule, sorted(opts.items())), rule=rule, opts=dict(opts), texts=texts,
                         stride=1, budget_s=600, weight=4))
    return dict(jobs=jobs, level_text='bounded symbolic execution of the real count under a line tracer: on every feasible path (all ballot multisets with the stated total) the '
                'interrupted renderings are evaluated at the first line event of every distinct record state; a syntactic check of the count path (no try/finally/with, '
                'no handler that could swallow KeyboardInterrupt) justifies that raising at an event leaves exactly the state of that event; failing states are replayed '
                'with a real KeyboardInterrupt raised from sys.settrace on the pristine code',
                assumptions=COUNT_ASSUME + ['ballot total fixed per job (the report header prints it with %d); renderers only append the interrupt log and set intr_logged (undone after each virtual interruption)'],
                require_reach=['record-states', 'before-header', 'real-interrupts'],
                bounds=dict(rules=[r for r, _ in RULE_CFGS], candidates=3, ranking_length=2, ballot_total=[4] if quick else [3, 4, 5], seats=2,
                            interruption_points='every line event of package code inside Election.count(), grouped by record state'))


def C20(tier):
    jobs = []
    quick = tier != 'thorough'
    cfgs = RULE_CFGS + [('wigm', {'arithmetic': 'integer'}), ('wigm', {}), ('wigm', dict(grid.G44, display=6)), ('meek', grid.G44),
                        ('wigm', {'arithmetic': 'guarded', 'precision': 3, 'guard': 0})]
    for rule, opts in cfgs:
        slow = rule in ('qpq', 'meek-prf') or opts.get('arithmetic') in ('guarded', None) and rule in ('wigm', 'meek')
        jobs.append(dict(kind='misc', mode='havoc', name='havoc %s %s' % (rule, sorted(opts.items())), rule=rule, opts=dict(opts), n=3, seats=2, maxlen=2,
                         N=4 if (quick or slow) else 5, budget_s=600 if quick else 1500, weight=3 if slow else 1))
        jobs.append(djob('twice', rule, opts, 3, 2, 2, 4, budget=600, **(dict(equal=grid.EQUAL_LINES) if rule in ('meek', 'warren') else {})))
    jobs.append(dict(kind='misc', mode='havoc', name='havoc wigm rational', rule='wigm', opts=dict(grid.RAT), n=3, seats=1, maxlen=2, N=4, budget_s=600))
    jobs.append(djob('opts', 'wigm', {}, 3, 2, 2, 4, optionsA=dict(rule='wigm-prf'), optionsB=dict(rule='scotland'), budget=300, twin_job=True, max_per_key=1,
                     cfg='vacuity twin: two different rules must be reported as different'))
    return dict(jobs=jobs, level_text='inductive step instead of histories: every class/module attribute that any election can leave changed (measured on a predecessor family, reported '
                'with its static AST superset) is havocked to a poison value before the election under test is constructed and counted symbolically on every feasible path; '
                'no poison read and a record equal to the unhavocked one covers every history; a hit is confirmed by a concrete predecessor search in fresh interpreters',
                assumptions=COUNT_ASSUME + ['the measured write set is complete for the predecessor family listed in harness/miscrun.py (every arithmetic x several precision/guard/display settings x 9 rules)',
                                            'real __str__ of the value class is exercised on concrete values after havoc (formatting state); the count itself uses the placeholder'],
                require_reach=['havoc-run', 'pair-compared'],
                bounds=dict(configurations=['%s %s' % (r, sorted(o.items())) for r, o in cfgs], candidates=3, ballots_max=4))


def C03(tier):
    quick = tier != 'thorough'
    B = 300 if quick else 1500
    jobs = []
    # (1) real vs real: the parametric rule configured with the reference rule's parameters
    for seats in (1, 2):
        jobs.append(djob('opts', 'wigm', {}, 3, seats, 3, 6 if quick else 8, optionsA=dict(rule='wigm', arithmetic='fixed', precision=4),
                         optionsB=dict(rule='wigm-prf'), budget=B, cfg='wigm fixed p=4 == wigm-prf'))
    jobs.append(djob('opts', 'wigm', {}, 4, 3, 2, 5 if quick else 6, optionsA=dict(rule='wigm', arithmetic='fixed', precision=4),
                     optionsB=dict(rule='wigm-prf'), budget=B, cfg='wigm fixed p=4 == wigm-prf', weight=5))
    # (2) reference transcriptions run in the same engine, symbolic tie order
    for rule in ('wigm-prf', 'wigm-prf-batch', 'scotland', 'mpls', 'cfer', 'cfer-batch', 'qpq', 'meek-prf'):
        slow = rule in ('qpq', 'meek-prf')
        for seats in (1, 2):
            jobs.append(grid.job(rule, {}, 3, seats, 3, (4 if slow else 6) + (0 if quick else 1), ['C03'], B, symtie=True, weight=4 if slow else 2))
        if not slow:
            for seats in ((2, 3) if quick else (1, 2, 3)):
                jobs.append(grid.job(rule, {}, 4, seats, 2, 5 if quick else 6, ['C03'], B, symtie=True, weight=5))
        else:
            jobs.append(grid.job(rule, {}, 4, 2, 2 if rule == 'qpq' else 1, 4 if rule == 'qpq' else 5, ['C03'], B, symtie=True, weight=6))
        jobs.append(grid.job(rule, {}, 4, 2, 2, 5 if not slow else 4, ['C03'], B, withdrawn=[2], symtie=True, weight=3))
    return dict(jobs=jobs, level_text='differential bounded symbolic execution: (1) the parametric rule configured like a reference rule against that reference rule, record by record; '
                '(2) a clause-by-clause transcription of the rule text quoted in the rule module (refs/*.py, under 150 lines each, scaled integers, explicit truncation) run in the same engine '
                'on the same symbolic ballots and tie order; stage lists (elected / excluded / surplus transferred, order, quota, every tally after every stage to the last digit) compared '
                'on every feasible path. Where droop is known to depart from the text the reference has a named switch; the check reports the departure as a known finding and anything else as a violation',
                assumptions=COUNT_ASSUME + ['references exist for all eight statutory rule names (refs/wigm_prf.py, scotland.py, mpls.py - profiles without undeclared write-ins -, cfer.py, meek_prf.py, qpq.py); CfER threshold as droop reads it (5-place quotient plus 0.00001); the transcriptions are validated by the run itself: '
                                            'every disagreement is replayed concretely', 'why the last candidates are declared elected (rule 47 vs 52; B.1 vs C) is not compared',
                                            'QPQ: the quoted text is silent on the restart after an exclusion; the reference restarts as droop does',
                                            'Scottish rule 49(2)/51(2): when the most recent unequal stage separates only some of the tied candidates the reference keeps looking back over the whole tied set, as droop does'],
                require_reach=['reference-run', 'matches-text', 'pair-compared'],
                bounds=dict(candidates=[3, 4], ballots_max=6 if quick else 8, references=['refs/wigm_prf.py', 'refs/scotland.py', 'refs/mpls.py', 'refs/cfer.py', 'refs/meek_prf.py', 'refs/qpq.py'],
                            symbolic_tie_order=True))


REGISTRY = {k: v for k, v in globals().items() if k[0] == 'C' and k[1:].isdigit()}
