"""Reference procedures for C03: clause-by-clause transcriptions of the rule texts quoted in droop's rule modules.
They work on scaled integers (python ints or SymInt), branch with ordinary `if` (the engine forks / decides), and return a
stage list that is compared with the one extracted from the real record."""


class Paper:
    "a parcel of identical ballots"
    __slots__ = ('m', 'r', 'i', 'w')

    def __init__(self, m, r, w):
        self.m, self.r, self.i, self.w = m, list(r), 0, w


def papers_from(E, S):
    "the reference reads the same input as the implementation: multiplier and ranking of every ballot line"
    out = []
    for b in E.ballots:
        m = b.multiplier._value // S if hasattr(b.multiplier, '_value') else b.multiplier
        out.append(Paper(m, b.ranking, S))
    return out


def pick_by_order(cands, rank):
    "earliest in the predetermined tie-breaking order"
    best = None
    for c in cands:
        if best is None or rank[c] < rank[best]:
            best = c
    return best


def maxima(cands, key, want_max=True):
    "candidates holding the extreme value (compared with the arithmetic's ordinary order)"
    ext = None
    for c in cands:
        if ext is None or (key[c] > key[ext] if want_max else key[c] < key[ext]):
            ext = c
    return [c for c in cands if key[c] == key[ext]]


def impl_stages(E, names):
    """stage list of the real record: ('elect', {cids}) | ('exclude', {cids}, tallies|None) | ('surplus', cid, tallies) and the final elected set.
    tallies: cid -> raw value of every non-withdrawn candidate after the stage"""
    from harness import rec
    stages = []
    acts = rec.actions(E)
    n2c = names

    def tallies(A):
        return {c: s['vote']._value for c, s in A['cstate'].items() if 'vote' in s}
    pend_excl = None
    for k, A in enumerate(acts):
        tag, msg = A['tag'], A['msg']
        if tag == 'elect':
            nm = msg.split(': ', 1)[1]
            final = 'remaining' in msg or 'Elect all' in msg or 'Elect pending' in msg or 'at threshold' in msg
            if final:
                continue
            if stages and stages[-1][0] == 'elect' and stages[-1][2] == A['round'] and pend_excl is None:
                stages[-1][1].add(n2c[nm])
            else:
                stages.append(['elect', {n2c[nm]}, A['round']])
        elif tag == 'defeat':
            nm = msg.split(': ', 1)[1]
            if 'remaining' in msg:
                continue
            if pend_excl is None:
                pend_excl = ['exclude', {n2c[nm]}, None]
                stages.append(pend_excl)
            else:
                pend_excl[1].add(n2c[nm])
        elif tag == 'transfer':
            if msg.startswith(('Surplus transferred', 'Transfer surplus')):
                nm = msg.split(': ', 1)[1].rsplit(' (', 1)[0]
                stages.append(['surplus', n2c[nm], tallies(A)])
                pend_excl = None
            else:
                if pend_excl is not None:
                    pend_excl[2] = tallies(A)
                pend_excl = None
        elif tag in ('round', 'count'):
            pend_excl = None
    out = []
    for s in stages:
        if s[0] == 'elect':
            out.append(('elect', frozenset(s[1])))
        else:
            out.append(tuple(s))
    return out, frozenset(c.cid for c in E.C if c.state == 'elected')
