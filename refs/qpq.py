"""Woodall's Quota Preferential by Quotient, paragraphs 2.1-2.6 as quoted in droop/rules/qpq.py (guarded arithmetic, 9+9
digits: quantities closer than half a unit of the ninth place are equal).  After an exclusion the count restarts with every
elected candidate hopeful again and every ballot having elected nothing -- as droop does (the quoted text is silent on it)."""
from refs.common import pick_by_order

S = 10 ** 18
GEPS = 10 ** 9 // 2


def gt(a, b):
    return a - b >= GEPS


def eq(a, b):
    d = a - b
    return -GEPS < d < GEPS


def count(cands, seats, papers, rank, nballots):
    """events: ('elect', cid, quotients, quota) | ('exclude', cid, quotients, quota); returns (events, elected)"""
    hopeful = list(cands)                                                       # 2.1
    elected, excluded = [], []
    for p in papers:                                                            # 2.2
        p.w = 0
        p.i = 0
    events = []
    restart = True
    while not (len(elected) >= seats or len(hopeful) <= seats - len(elected)):
        if restart:
            restart = False
            hopeful = hopeful + elected
            elected = []
            for p in papers:
                p.w = 0
                p.i = 0
        for p in papers:
            while p.i < len(p.r) and p.r[p.i] not in hopeful:
                p.i += 1
        vc = {c: 0 for c in hopeful}                                            # 2.3
        tc = {c: 0 for c in hopeful}
        va, tx = 0, 0                                                           # 2.4
        for p in papers:
            if p.i >= len(p.r):
                tx = tx + p.w * p.m
            else:
                c = p.r[p.i]
                va = va + p.m * S
                vc[c] = vc[c] + p.m * S
                tc[c] = tc[c] + p.w * p.m
        q = {c: vc[c] * S // (S + tc[c]) for c in hopeful}
        quota = va * S // ((1 + seats) * S - tx)
        hi = None
        for c in hopeful:
            if hi is None or gt(q[c], q[hi]):
                hi = c
        if gt(q[hi], quota):                                                    # 2.5a
            tied = [c for c in hopeful if eq(q[c], q[hi])]
            c = tied[0] if len(tied) == 1 else pick_by_order(tied, rank)
            events.append(('elect', c, dict(q), quota))
            hopeful.remove(c)
            elected.append(c)
            nw = S * S // q[c]
            for p in papers:
                if p.i < len(p.r) and p.r[p.i] == c:
                    p.w = nw
        else:                                                                   # 2.5b
            lo = None
            for c in hopeful:
                if lo is None or gt(q[lo], q[c]):
                    lo = c
            tied = [c for c in hopeful if eq(q[c], q[lo])]
            c = tied[0] if len(tied) == 1 else pick_by_order(tied, rank)
            events.append(('exclude', c, dict(q), quota))
            hopeful.remove(c)
            excluded.append(c)
            restart = True
    final = set(elected)
    if len(hopeful) <= seats - len(elected):
        final |= set(hopeful)
    return events, frozenset(final)
