"""Minneapolis Code of Ordinances 167.20 / 167.70(c)(1) (text quoted in droop/rules/mpls.py), multiple-seat tabulation.
Four decimal places.  Profiles without undeclared write-in candidates (their round-2 treatment is not transcribed)."""
from refs.common import pick_by_order, maxima

S = 10000


def count(cands, seats, papers, rank, nballots, follow_impl, notes):
    cont = list(cands)                          # continuing candidates
    elected = []
    vote = {c: 0 for c in cands}
    stages = []
    threshold = (nballots // (seats + 1) + 1) * S                       # 167.20 Threshold (fractions disregarded)

    def assign(p):
        while p.i < len(p.r) and p.r[p.i] not in cont:
            p.i += 1
        if p.i < len(p.r):
            vote[p.r[p.i]] = vote[p.r[p.i]] + p.w * p.m

    def impossible():
        "167.20 Mathematically impossible to be elected, (1) and (2); never so many that seats could not be filled"
        order = sorted(cont, key=lambda c: (vote[c], c))
        surplus = 0
        for c in cont:
            if vote[c] > threshold:
                surplus = surplus + (vote[c] - threshold)
        losers, maybe, tot = [], [], 0
        limit = len(cont) - (seats - len(elected))
        for x in range(len(order) - 1):
            maybe.append(order[x])
            if len(maybe) > limit:
                break
            tot = tot + vote[order[x]]
            if tot + surplus < vote[order[x + 1]]:
                losers = list(maybe)
        return losers

    for p in papers:                                                    # round 1: a.
        assign(p)
    rnd = 1
    while True:
        reached = [c for c in cont if vote[c] >= threshold]             # a.
        if len(elected) + len(reached) >= seats:
            elected += reached
            for c in reached:
                cont.remove(c)
            if reached:
                stages.append(('elect', frozenset(reached)))
            break
        rnd += 1
        losers = impossible()                                           # c.
        if losers:
            for c in losers:
                cont.remove(c)
            final = len(cont) == seats - len(elected)
            if final and not follow_impl:
                stages.append(('exclude', frozenset(losers), None))     # final round: votes are not transferred
            else:
                if final:
                    notes.append('c-final-round')
                for p in papers:
                    if p.i < len(p.r) and p.r[p.i] in losers:
                        assign(p)
                for c in losers:
                    vote[c] = 0
                stages.append(('exclude', frozenset(losers), dict(vote)))
            continue
        reached = [c for c in cont if vote[c] >= threshold]             # d.
        if reached:
            tied = maxima(reached, vote, True)
            c = tied[0] if len(tied) == 1 else pick_by_order(tied, rank)
            cont.remove(c)
            elected.append(c)
            stages.append(('elect', frozenset([c])))
            sur = vote[c] - threshold
            frac = sur * S // vote[c]                                   # surplus fraction, four places, remainder ignored
            for p in papers:
                if p.i < len(p.r) and p.r[p.i] == c:
                    p.w = frac * p.w // S                               # transfer value = surplus fraction x current value
                    assign(p)
            vote[c] = threshold
            stages.append(('surplus', c, dict(vote)))
            continue
        if len(cont) > seats - len(elected):                            # e.
            tied = maxima(cont, vote, False)
            c = tied[0] if len(tied) == 1 else pick_by_order(tied, rank)
            cont.remove(c)
            if len(cont) > seats - len(elected):
                for p in papers:
                    if p.i < len(p.r) and p.r[p.i] == c:
                        assign(p)
                vote[c] = 0
                stages.append(('exclude', frozenset([c]), dict(vote)))
            else:
                stages.append(('exclude', frozenset([c]), None))        # final round: votes are not transferred
        if len(cont) <= seats - len(elected):                           # f.
            break
    final = set(elected)
    if len(cont) <= seats - len(elected):
        final |= set(cont)
    return stages, frozenset(final)
