"""Californians for Electoral Reform draft statute, section 10059 (text quoted in droop/rules/cfer.py), with or without
subdivision (k) (batch defeat).  Five decimal places.  The threshold is formed as droop forms it (the quotient to five
places plus 0.00001): 10059(a)(2) disregards the fraction; this is a reading recorded in DESIGN.md, not compared."""
from refs.common import pick_by_order, maxima

S = 100000


def count(cands, seats, papers, rank, nballots, batch, follow_impl, notes):
    cont = list(cands)
    elected, pending = [], []               # pending: elected with a surplus not yet transferred
    vote = {c: 0 for c in cands}
    stages = []
    quota = nballots * S * S // ((seats + 1) * S) + 1                   # (a)(2), as read by droop

    def assign(p):
        while p.i < len(p.r) and p.r[p.i] not in cont:
            p.i += 1
        if p.i < len(p.r):
            vote[p.r[p.i]] = vote[p.r[p.i]] + p.w * p.m

    for p in papers:                                                    # (a)(1)
        assign(p)
    rnd = 0
    while True:
        rnd += 1
        if rnd == 1 and len(cont) <= seats:                             # (c)
            elected += cont
            cont = []
            break
        win = [c for c in cont if vote[c] >= quota]                     # (d)
        if win:
            for c in win:
                cont.remove(c)
                elected.append(c)
                if vote[c] > quota:
                    pending.append(c)
            stages.append(('elect', frozenset(win)))
        if len(elected) >= seats:                                       # (e)
            break
        defeats = []
        if batch:                                                       # (f), (k)
            surplus = 0
            for c in pending:
                surplus = surplus + (vote[c] - quota)
            order = sorted(cont, key=lambda c: (vote[c], c))
            for t in range(1, len(order)):
                dset, rest = order[:t], order[t:]
                if len(rest) + len(elected) < seats:                    # (k)(1)
                    break
                tot = surplus
                for c in dset:
                    tot = tot + vote[c]
                if not tot < vote[rest[0]]:                             # (k)(2)
                    continue
                top = vote[order[-1]]
                ok = (len(elected) + 1 == seats or                      # (k)(3)(A)
                      len(rest) + len(elected) == seats or              # (k)(3)(B)
                      tot < quota - top or                              # (k)(3)(C)
                      (surplus == 0 and tot - vote[dset[-1]] < quota - top))    # (k)(3)(D)
                if ok:
                    defeats = dset
        if defeats:
            for c in defeats:
                cont.remove(c)
        elif pending:                                                   # (g)
            for c in list(pending):
                pending.remove(c)
                sur = vote[c] - quota
                for p in papers:
                    if p.i < len(p.r) and p.r[p.i] == c:
                        p.w = p.w * sur // vote[c]                      # (g)(2): multiplied, divided, truncated to five places
                        assign(p)
                vote[c] = quota                                         # (g)(3)
                stages.append(('surplus', c, dict(vote)))
        else:                                                           # (h)
            tied = maxima(cont, vote, False)
            c = tied[0] if len(tied) == 1 else pick_by_order(tied, rank)
            cont.remove(c)
            defeats = [c]
        if defeats:                                                     # (i)
            if len(cont) + len(elected) <= seats:                       # (i)(1)
                stages.append(('exclude', frozenset(defeats), None))
                elected += cont
                cont = []
                break
            for p in papers:                                            # (i)(2)
                if p.i < len(p.r) and p.r[p.i] in defeats:
                    assign(p)
            for c in defeats:
                vote[c] = 0
            stages.append(('exclude', frozenset(defeats), dict(vote)))
    return stages, frozenset(elected)
