"""PR Foundation reference rule: WIGM (text quoted in droop/rules/wigm_prf.py), with or without step B.2 (sure losers).
Arithmetic D.4: every multiplication or division truncated to four decimal places (S = 10^4)."""
from refs.common import pick_by_order, maxima

S = 10000


def count(cands, seats, papers, rank, nballots, batch, follow_impl, notes):
    """cands: non-withdrawn cids; papers: list of Paper; rank: cid -> tie-break rank; returns (stages, elected set).
    follow_impl=False: the text, clause by clause.  follow_impl=True: the same, except that D.3 is not tested after B.1
    and only after the transfer in B.4 -- the two places where droop departs from the text (each use is noted)."""
    hopeful = list(cands)
    pending, elected = [], []
    quota = nballots * S * S // ((seats + 1) * S) + 1                  # A.1  (division truncated to 4 places, plus 0.0001)
    vote = {c: 0 for c in cands}
    stages = []

    def complete():                                                     # D.3
        return len(elected) + len(pending) == seats or len(elected) + len(pending) + len(hopeful) <= seats

    def assign(p):                                                      # D.2
        while p.i < len(p.r) and p.r[p.i] not in hopeful:
            p.i += 1
        if p.i < len(p.r):
            vote[p.r[p.i]] = vote[p.r[p.i]] + p.w * p.m

    for p in papers:                                                    # A.4, A.5
        assign(p)
    while not complete():                                               # A.3 / "continue at step B.1" + D.3
        # B.1 elect winners
        win = [c for c in hopeful if vote[c] >= quota]
        if win:
            for c in win:
                hopeful.remove(c)
                pending.append(c)
            stages.append(('elect', frozenset(win)))
        if complete():                                                  # B.1 "Test count complete (D.3)"
            if not follow_impl:
                break
            notes.append('B.1')
        # B.2 sure losers
        if batch:
            surplus = 0
            for c in pending:
                surplus = surplus + (vote[c] - quota)
            order = sorted(hopeful, key=lambda c: (vote[c], c))
            best = []
            need = seats - len(pending) - len(elected)
            for k in range(1, len(order)):
                cand_set, rest = order[:k], order[k:]
                if len(rest) < need:                                   # B.2.a
                    break
                if vote[cand_set[-1]] == vote[rest[0]]:                 # B.2.b
                    continue
                tot = surplus
                for c in cand_set:
                    tot = tot + vote[c]
                if tot < vote[rest[0]]:                                 # B.2.c
                    best = cand_set
            if best:
                for c in best:
                    hopeful.remove(c)
                stop = complete() if not follow_impl else len(hopeful) <= seats - len(elected) - len(pending)
                if stop:
                    stages.append(('exclude', frozenset(best), None))
                    break
                for p in papers:
                    if p.i < len(p.r) and p.r[p.i] in best:
                        assign(p)
                for c in best:
                    vote[c] = 0
                stages.append(('exclude', frozenset(best), dict(vote)))
                continue
        # B.3 transfer high surplus
        if pending:
            tied = maxima(pending, vote, True)
            c = tied[0] if len(tied) == 1 else pick_by_order(tied, rank)
            pending.remove(c)
            elected.append(c)
            sur = vote[c] - quota
            for p in papers:
                if p.i < len(p.r) and p.r[p.i] == c:
                    p.w = (p.w * sur // S) * S // vote[c]               # multiplied, truncated; divided, truncated (D.4)
                    assign(p)
            vote[c] = quota
            stages.append(('surplus', c, dict(vote)))
            continue
        # B.4 defeat low candidate
        if not hopeful:
            break
        tied = maxima(hopeful, vote, False)
        c = tied[0] if len(tied) == 1 else pick_by_order(tied, rank)
        hopeful.remove(c)
        if complete():                                                  # B.4 "Test count complete (D.3)"
            if not follow_impl:
                stages.append(('exclude', frozenset([c]), None))
                break
            notes.append('B.4')
        for p in papers:
            if p.i < len(p.r) and p.r[p.i] == c:
                assign(p)
        vote[c] = 0
        stages.append(('exclude', frozenset([c]), dict(vote)))
    # C finish
    final = set(elected) | set(pending)
    if len(final) < seats:
        final |= set(hopeful)
    return stages, frozenset(final)
