"""PR Foundation reference rule: Meek (text quoted in droop/rules/meek_prf.py).  Nine decimal places; omega = 10^-6."""
from refs.common import pick_by_order

S = 10 ** 9
OMEGA = S // 10 ** 6


def mul_up(a, b):
    q, r = divmod(a * b, S)
    return q + 1 if r else q


def div_up(a, b):
    q, r = divmod(a * S, b)
    return q + 1 if r else q


def count(cands, seats, papers, rank, nballots, iter_cap=60):
    """returns (events, elected set); events: ('elect', {cids}, snap) | ('exclude', cid, snap) with
    snap = (votes, quota, surplus, keep factors) as they stand when the event happens"""
    hopeful = list(cands)                                                       # A
    elected, defeated = [], []
    kf = {c: S for c in cands}
    vote = {c: 0 for c in cands}
    events = []
    while not (len(elected) >= seats or len(elected) + len(hopeful) <= seats):   # B.1
        last = None
        while True:                                                             # B.2
            for c in hopeful + elected:                                         # B.2.a
                vote[c] = 0
            for p in papers:
                w = S
                for c in p.r:
                    if kf[c]:
                        keep = mul_up(w, kf[c])
                        vote[c] = vote[c] + keep * p.m
                        w = w - keep
                        if w <= 0:
                            break
            total = 0
            for c in hopeful + elected:
                total = total + vote[c]
            quota = total // (seats + 1) + 1                                    # B.2.b  (total is already scaled)
            win = [c for c in hopeful if vote[c] >= quota]                      # B.2.c
            for c in win:
                hopeful.remove(c)
                elected.append(c)
            surplus = 0                                                         # B.2.d
            for c in elected:
                surplus = surplus + (vote[c] - quota)
            if surplus < 0:
                surplus = 0
            if win:                                                             # B.2.e
                events.append(('elect', frozenset(win), (dict(vote), quota, surplus, dict(kf))))
                break
            if surplus < OMEGA or (last is not None and surplus >= last):
                break
            last = surplus
            for c in elected:                                                   # B.2.f
                kf[c] = div_up(mul_up(kf[c], quota), vote[c])
            iter_cap -= 1
            if iter_cap <= 0:
                raise RuntimeError('reference iteration cap')
        if win:
            continue
        if hopeful:                                                             # B.3
            low = None
            for c in hopeful:
                if low is None or vote[c] < vote[low]:
                    low = c
            tied = [c for c in hopeful if vote[c] <= vote[low] + surplus]
            c = tied[0] if len(tied) == 1 else pick_by_order(tied, rank)
            events.append(('exclude', c, (dict(vote), quota, surplus, dict(kf))))
            hopeful.remove(c)
            defeated.append(c)
            kf[c] = 0
            vote[c] = 0
    final = set(elected)                                                        # C
    if len(final) < seats:
        final |= set(hopeful)
    return events, frozenset(final)
