"""The Scottish Local Government Elections Order 2007, rules 45-52 (text quoted in droop/rules/scotland.py).
Five decimal places (rule 48(3)), remainder ignored."""
from refs.common import pick_by_order, maxima

S = 100000


def count(cands, seats, papers, rank, nballots, follow_impl, notes):
    cont = list(cands)                       # continuing candidates
    elected, pending = [], []                # deemed elected; of those, surplus not yet dealt with
    vote = {c: 0 for c in cands}
    stages = []
    for p in papers:                                                    # 45: first preferences
        vote[p.r[0]] = vote[p.r[0]] + p.m * p.w
    quota = (nballots // (seats + 1) + 1) * S                           # 46: ignoring decimal places, increased by one
    history = [dict(vote)]                   # tallies at the end of each stage (49(2), 51(2) look back over them)

    def deem():                                                         # 47
        win = [c for c in cont if vote[c] >= quota]
        if win:
            for c in win:
                cont.remove(c)
                elected.append(c)
                pending.append(c)
            stages.append(('elect', frozenset(win)))

    def done():                                                         # 52 / all vacancies filled
        return len(elected) >= seats or len(cont) <= seats - len(elected)

    def next_avail(p):
        while p.i < len(p.r) and p.r[p.i] not in cont:
            p.i += 1
        return p.r[p.i] if p.i < len(p.r) else None

    def decide(tied, lowest):
        "49(2) / 51(2): most recent preceding stage at which one of them alone had the most / fewest votes; else by lot"
        for h in reversed(history):
            ext = maxima(tied, h, not lowest)
            if len(ext) == 1:
                return ext[0]
        return pick_by_order(tied, rank)                                # 49(3) / 51(2)(b): by lot

    deem()
    while not done():
        if pending:                                                     # 48, 49: largest surplus first
            tied = maxima(pending, vote, True)
            c = tied[0] if len(tied) == 1 else decide(tied, False)
            pending.remove(c)
            surplus = vote[c] - quota
            for p in papers:
                if p.i < len(p.r) and p.r[p.i] == c:
                    p.w = (surplus * p.w) // vote[c]                    # 48(3): to five decimal places, remainder ignored
                    t = next_avail(p)
                    if t is not None:
                        vote[t] = vote[t] + p.m * p.w
            vote[c] = quota
            stages.append(('surplus', c, dict(vote)))
        else:                                                           # 50, 51: exclude the lowest
            tied = maxima(cont, vote, False)
            c = tied[0] if len(tied) == 1 else decide(tied, True)
            cont.remove(c)
            for p in papers:
                if p.i < len(p.r) and p.r[p.i] == c:
                    t = next_avail(p)
                    if t is not None:
                        vote[t] = vote[t] + p.m * p.w
            vote[c] = 0
            stages.append(('exclude', frozenset([c]), dict(vote)))
        history.append(dict(vote))
        deem()
    final = set(elected)
    if len(cont) <= seats - len(elected):                               # 52
        final |= set(cont)
    return stages, frozenset(final)
