#!/bin/sh
# usage: seed_run.sh <name> <prop> [<prop>...]   -- applies /verif/seeded/<name>/patch.diff to /repo, runs the quick checks, reverts
NAME=$1; shift
cd /repo && git diff --quiet || { echo "/repo not clean"; exit 2; }
git -C /repo apply --whitespace=nowarn /verif/seeded/$NAME/patch.diff || { echo "apply failed"; exit 2; }
for P in "$@"; do
  cd /verif && mkdir -p /tmp/seedrun && cp evidence/$P.json /tmp/seedrun/$P.keep 2>/dev/null
  ./bin/check $P ${TIER:+--tier $TIER} > /tmp/seedrun/${NAME}_$P.out 2>&1; RC=$?
  cp /tmp/seedrun/$P.keep evidence/$P.json 2>/dev/null
  echo "$NAME $P rc=$RC: $(grep -c '^VIOLATION' /tmp/seedrun/${NAME}_$P.out) violation line(s); $(grep -m2 '^   C' /tmp/seedrun/${NAME}_$P.out | tr '\n' ';')"
done
git -C /repo checkout -- .
