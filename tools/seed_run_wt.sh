#!/bin/sh
# usage: seed_run_wt.sh <name> <prop> [<prop>...]
# like seed_run.sh but leaves /repo alone: applies /verif/seeded/<name>/patch.diff in a scratch worktree of /repo HEAD and
# points the checks at it through DROOP_REPO (for use while a long run is reading /repo).  Evidence files are put back.
NAME=$1; shift
WT=/tmp/wt/run_$NAME
rm -rf $WT; git -C /repo worktree prune
git -C /repo worktree add -q --detach $WT HEAD || exit 2
git -C $WT apply --whitespace=nowarn /verif/seeded/$NAME/patch.diff || { echo "apply failed"; git -C /repo worktree remove --force $WT; exit 2; }
mkdir -p /tmp/seedrun
for P in "$@"; do
  cd /verif && cp evidence/$P.json /tmp/seedrun/$P.keep.$NAME 2>/dev/null
  DROOP_REPO=$WT ./bin/check $P ${TIER:+--tier $TIER} > /tmp/seedrun/${NAME}_$P.out 2>&1; RC=$?
  cp /tmp/seedrun/$P.keep.$NAME evidence/$P.json 2>/dev/null; rm -f /tmp/seedrun/$P.keep.$NAME
  echo "$NAME $P rc=$RC: $(grep -c '^VIOLATION' /tmp/seedrun/${NAME}_$P.out) violation line(s); $(grep -m2 '^   C' /tmp/seedrun/${NAME}_$P.out | tr '\n' ';')"
done
cd /; git -C /repo worktree remove --force $WT
