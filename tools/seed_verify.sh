#!/bin/sh
# usage: seed_verify.sh <name> <patch.diff> <demo.py> <meta.json>
# confirms in a scratch worktree of /repo HEAD: patch applies, unedited test suite passes with it, demo fails with it and passes without it.
# on success stores the triple under /verif/seeded/<name>/
set -u
NAME=$1; PATCH=$2; DEMO=$3; META=$4
WT=/tmp/wt/verify_$NAME
rm -rf $WT; git -C /repo worktree prune
git -C /repo worktree add -q --detach $WT HEAD || exit 2
cd $WT
if ! git apply --whitespace=nowarn $PATCH 2>/tmp/wt/apply_$NAME.err; then
  if ! git apply --3way --whitespace=nowarn $PATCH 2>>/tmp/wt/apply_$NAME.err; then echo "$NAME: PATCH DOES NOT APPLY"; cat /tmp/wt/apply_$NAME.err | head -5; cd /; git -C /repo worktree remove --force $WT; exit 1; fi
fi
git diff > /tmp/wt/rebased_$NAME.diff
T=$(/venv/bin/python -m pytest -q -p no:cacheprovider 2>&1 | tail -1)
rm -rf test/out
mkdir -p seeded_out; cp $DEMO seeded_out/demo.py
PYTHONPATH=$WT /venv/bin/python seeded_out/demo.py >/tmp/wt/demo_with_$NAME.out 2>&1; RC_WITH=$?
git checkout -q -- . 
PYTHONPATH=$WT /venv/bin/python seeded_out/demo.py >/tmp/wt/demo_without_$NAME.out 2>&1; RC_WITHOUT=$?
cd /; git -C /repo worktree remove --force $WT
echo "$NAME: tests: $T | demo with patch rc=$RC_WITH | demo without patch rc=$RC_WITHOUT"
case "$T" in *"207 passed"*) ;; *) echo "$NAME: REJECT (tests)"; exit 1;; esac
[ $RC_WITH -ne 0 ] && [ $RC_WITHOUT -eq 0 ] || { echo "$NAME: REJECT (demo)"; exit 1; }
mkdir -p /verif/seeded/$NAME
cp /tmp/wt/rebased_$NAME.diff /verif/seeded/$NAME/patch.diff; cp $DEMO /verif/seeded/$NAME/demo.py; cp $META /verif/seeded/$NAME/meta.orig.json
echo "$NAME: KEPT"
