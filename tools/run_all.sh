#!/bin/sh
# usage: run_all.sh [quick|thorough] [props...]  -- runs the checks one after the other, prints one summary line each
TIER=${1:-quick}; shift
cd /verif
PROPS=${*:-$(python3 -c "import json; print(' '.join(c['property_id'] for c in json.load(open('MANIFEST.json'))['checks']))")}
mkdir -p /tmp/runall
for P in $PROPS; do
  S=$(date +%s)
  ./bin/check $P --tier $TIER > /tmp/runall/$P.$TIER.out 2>&1; RC=$?
  echo "$P $TIER rc=$RC $(( $(date +%s) - S ))s :: $(grep -c '^VIOLATION' /tmp/runall/$P.$TIER.out) viol, $(grep -c '^KNOWN-FINDING' /tmp/runall/$P.$TIER.out) known, $(grep -c '^INCONCLUSIVE' /tmp/runall/$P.$TIER.out) inconcl, $(grep -c '^HARNESS' /tmp/runall/$P.$TIER.out) herr :: $(tail -1 /tmp/runall/$P.$TIER.out | cut -c1-160)"
done
