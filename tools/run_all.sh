#!/bin/sh
# usage: run_all.sh [quick|thorough] [props...]  -- runs the checks one after the other, prints one summary line each
TIER=${1:-quick}; shift
cd "$(dirname "$0")/.."
PROPS=${*:-$(python3 -c "import json; print(' '.join(c['property_id'] for c in json.load(open('MANIFEST.json'))['checks']))")}
OUT=${RUNALL_OUT:-/tmp/runall}; mkdir -p $OUT
for P in $PROPS; do
  S=$(date +%s)
  ./bin/check $P --tier $TIER > $OUT/$P.$TIER.out 2>&1; RC=$?
  echo "$P $TIER rc=$RC $(( $(date +%s) - S ))s :: $(grep -c '^VIOLATION' $OUT/$P.$TIER.out) viol, $(grep -c '^KNOWN-FINDING' $OUT/$P.$TIER.out) known, $(grep -c '^INCONCLUSIVE' $OUT/$P.$TIER.out) inconcl, $(grep -c '^HARNESS' $OUT/$P.$TIER.out) herr :: $(tail -1 $OUT/$P.$TIER.out | cut -c1-160)"
done
