"""Cross-check of the solver (guidance: "diff two solvers once per encoding change"): runs a few jobs with SYMEX_DUMP_DIR set,
then re-asks every dumped query of /usr/bin/z3 (4.8.12) and of the cvc5 binary and reports disagreements with z3 5.1.0.
usage: .venv/bin/python tools/crosscheck.py"""
import glob, json, os, subprocess, sys, tempfile
HERE = os.path.dirname(os.path.dirname(os.path.abspath(__file__)))
sys.path.insert(0, HERE)
from harness import driver

JOBS = [
    dict(kind='count', rule='wigm-prf', opts={}, n=3, seats=2, maxlen=3, N=5, monitors=['C02', 'C04', 'C06'], budget_s=300),
    dict(kind='count', rule='meek', opts={'arithmetic': 'fixed', 'precision': 3, 'omega': 2}, n=3, seats=2, maxlen=3, N=4, monitors=['C08'], budget_s=300),
    dict(kind='count', rule='wigm', opts={'arithmetic': 'rational'}, n=3, seats=2, maxlen=2, N=4, monitors=['C02'], budget_s=300),
    dict(kind='leaf', obligations=[['fx_muldiv', {'p': 3}], ['fx_div', {'p': 9}], ['gd_cmp_law', {'p': 4, 'g': 4}], ['str_guarded', {'p': 3, 'g': 2, 'd': 4}], ['rt_div', {'D': 4}]]),
]
d = tempfile.mkdtemp(prefix='xcheck')
os.environ['SYMEX_DUMP_DIR'] = d
os.environ['SYMEX_DUMP_EVERY'] = os.environ.get('SYMEX_DUMP_EVERY', '40')
for j in JOBS:
    r = driver.run_worker(j, 600)
    print('job', j.get('rule') or 'leaf', r['outcome'], r['stats'].get('queries'))
files = sorted(glob.glob(os.path.join(d, '*.smt2')))
res = dict(total=len(files), z3old_agree=0, z3old_disagree=0, z3old_other=0, cvc5_agree=0, cvc5_disagree=0, cvc5_other=0)
for f in files:
    exp = open(f).readline().split(':')[1].strip()
    for name, cmd in (('z3old', ['/usr/bin/z3', '-T:20', f]), ('cvc5', ['cvc5', '--tlimit=20000', f])):
        try:
            out = subprocess.run(cmd, capture_output=True, text=True, timeout=40).stdout.strip().split('\n')[0]
        except subprocess.TimeoutExpired:
            out = 'timeout'
        if out == exp:
            res[name + '_agree'] += 1
        elif out in ('sat', 'unsat'):
            res[name + '_disagree'] += 1
            print('DISAGREE', name, f, exp, out)
        else:
            res[name + '_other'] += 1
print(json.dumps(res))
import shutil; shutil.rmtree(d)
