"""regenerates MANIFEST.json from the registry (claimed properties) -- run by hand after adding a check"""
import json, sys
sys.path.insert(0, '/verif')
TEXTS = {
 'C01': ('termination, seat filling and decidedness of every count', 'outcome predicate (exceptions incl. postCheck, seats filled = min(seats, electable), each candidate decided once, withdrawn never credited) on every feasible path of count()'),
 'C02': ('conservation of votes at every recorded action', 'linear (in)equalities over the symbolic record on every feasible path; exact equality under rational arithmetic and at Meek clean snapshots; QPQ ballot-level sum through an observer around logAction'),
 'C03': ('statutory rules follow their published procedure', 'differential symbolic execution: real rule vs real rule configured alike (wigm fixed p4 vs wigm-prf; batch vs non-batch where no batch fires) and the Scottish Order / PRF WIGM transcribed as reference procedures run in the same engine'),
 'C04': ('quota formula and election of whoever reaches the quota', 'division-free quota inequalities and threshold facts at exclusions/transfers on every feasible path'),
 'C05': ('Droop proportionality for solid coalitions', 'one disjunction over all candidate subsets S and all k per path'),
 'C06': ('Gregory transfer invariants at ballot level', 'observer around logAction; tallies = sum of ballot values, transfer value rounded down to the last digit (fused or two-step form), values only shrink'),
 'C07': ('lowest / sure-loser exclusion, largest surplus first, declared tie order', 'symbolic tie-break permutation; inequalities over the preceding snapshot at every exclusion, surplus choice and tie; differential second run with an independent permutation'),
 'C08': ('Meek/Warren invariants at clean snapshots', 'equalities and ranges over the symbolic record at the snapshots the property lists; omega / stable exit conditions (observer on assignments to E.surplus: a stable exit needs a surplus that did not decrease)'),
 'C09': ('monotone candidate status, seat bounds, non-decreasing rounds', 'walk over consecutive snapshots of every feasible path (the set of paths is the set of all histories within the bounds)'),
 'C10': ('presentation independence', 'metamorphic symbolic execution (lines reordered and split by symbolic amounts) plus token-mode layout/comment/nickname variants of the reader'),
 'C11': ('neutrality under renumbering; withdrawn == deleted', 'metamorphic symbolic execution over all id permutations (symbolic tie order carried) and withdrawn-vs-deleted pairs'),
 'C12': ('fixed-point / integer / rational arithmetic laws', 'real Fixed/Rational methods executed on unbounded symbolic operands; multiplication-only oracles (QF_NIA)'),
 'C13': ('guarded comparison law, guard=0 == fixed, quasi-exact == exact', 'leaf laws on unbounded operands; count-mode differentials guarded(p,0) vs fixed(p) and guarded vs the real Rational under the statistics premise'),
 'C14': ('printed form denotes the half-up rounded value', 'real __str__ of the three classes on an unbounded symbolic value with the format string replaced by a recorder; rendering markers'),
 'C15': ('a well-formed file is read as the election it denotes', 'token-mode symbolic execution of the real reader on renderings of independently written structures (symbolic multipliers, number/nickname choice, comment tokens)'),
 'C16': ('any text is a profile or a clean profile error', 'token-mode symbolic execution of the real reader and constructor on token soups and single-token edits of templates; symbolic candidate count for the ranking array typecode'),
 'C17': ('option precedence and statutory immunity', 'real Options methods (getopt, setopt return values, record, unused, overrides) on symbolic option values for all layer presence patterns; count-mode differential with perturbing options from caller / file / both'),
 'C18': ('record is an audit trail; renderings agree', 'status-change/action correspondence on every feasible path; marker-based cross-check of report, dump and json against the record'),
 'C19': ('interrupted count can be reported as a prefix', 'symbolic ballots + line tracer: renderers evaluated at every distinct record state on every path; syntactic no-try/finally check; real KeyboardInterrupt replay'),
 'C20': ('independence from process history', 'havoc of the measured class-level write set and of every class-level container a count writes to, before a symbolically counted election (inductive step over histories) + same profile counted twice'),
}
from props import registry
m = json.load(open('/verif/MANIFEST.json'))
m['checks'] = []
claimed = sorted(registry.REGISTRY)
for pid in claimed:
    t = TEXTS[pid]
    m['checks'].append({
      "property_id": pid,
      "quick_cmd": "./bin/check %s --tier quick" % pid,
      "thorough_cmd": "./bin/check %s --tier thorough" % pid,
      "evidence_file": "evidence/%s.json" % pid,
      "replay_cmd_template": "./bin/check replay {path}",
      "engine": "SYMEX",
      "level_claimed": {"category": "model_checking", "text": "Bounded symbolic execution of the real code: %s. Exhaustive within the stated bounds (every feasible path, every input on it decided by z3), nothing outside them." % t[0], "design_ref": "DESIGN.md section 4, %s" % pid},
      "level_note": "Trusted: z3 5.1.0, CPython 3.12, the SymInt/SymBool/SymTok proxies and the listed shims (every explored path is re-run on the pristine implementation and compared). Bounds, stubs, queries and solver time are written to the evidence file.",
      "technique": "symbolic execution of the real Python code over z3 (SYMEX): %s" % t[1]})
m['engines'][0]['serves_properties'] = claimed
m['not_applicable'] = [{"property_id": 'C%02d' % i, "reason": "check not built yet in this session (planned, see DESIGN.md section 4); not claimed until it runs"} for i in range(1, 21) if 'C%02d' % i not in claimed]
json.dump(m, open('/verif/MANIFEST.json', 'w'), indent=1)
print('claimed', claimed, 'not applicable', [x['property_id'] for x in m['not_applicable']])
