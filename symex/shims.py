"""Shims installed from outside into droop's module namespaces (nothing under /repo changes).
Every shim is listed in DESIGN.md section 3.1 and in each evidence file."""
import math as _real_math
import numbers
import os
import sys
import types

import z3

from . import core
from .core import SymInt, SymBool, sym_int, sym_isinstance

REPO = os.environ.get('DROOP_REPO', '/repo')

STUBS = []
ORIG_STR = {}


def import_droop():
    if REPO not in sys.path:
        sys.path.insert(0, REPO)
    import droop  # noqa
    import droop.election, droop.profile, droop.record, droop.options  # noqa
    import droop.values.fixed, droop.values.guarded, droop.values.rational  # noqa
    f = os.path.realpath(droop.__file__)
    if not f.startswith(os.path.realpath(REPO) + os.sep):
        raise core.HarnessError('droop imported from %s, not from %s' % (f, REPO))
    return droop


def _note(s):
    if s not in STUBS:
        STUBS.append(s)


def install_int_shims():
    "let `int(x)` / `isinstance(x, int)` inside the value classes accept proxies"
    import droop.values.fixed as fm
    import droop.values.guarded as gm
    for m in (fm, gm):
        m.int = sym_int
        m.isinstance = sym_isinstance
        m.type = core.make_sym_type(sym_int)
    _note('int/isinstance/type shadowed in droop.values.fixed, droop.values.guarded (identity on real ints)')
    for cls in (fm.Fixed, gm.Guarded):
        if not getattr(cls.__bool__, '_symex_wrapped', False):
            def wrap(f):
                def __bool__(self):
                    return bool(f(self))
                __bool__._symex_wrapped = True
                return __bool__
            cls.__bool__ = wrap(cls.__bool__)
    _note('Fixed.__bool__/Guarded.__bool__ wrapped as bool(original(self))')


class KeyStr(str):
    "result of the real __str__ run on a proxy value: the text is a placeholder, `key` the (symbolic) numbers printed"
    def __new__(cls, key):
        o = str.__new__(cls, '<v>')
        o.key = key
        return o

    def __radd__(self, other):
        return KeyStr(('prefix:' + str(other),) + self.key)


class FmtProxy(str):
    "stands in for the class's display format while its __str__ runs: `fmt % numbers` keeps the numbers"
    def __mod__(self, args):
        args = args if isinstance(args, tuple) else (args,)
        return KeyStr(('fmt:' + str.__str__(self),) + args)


def _sym_str(x):
    if isinstance(x, (int, SymInt)) and not isinstance(x, bool):
        return KeyStr(('int', x))
    return str(x)


class LazyStr(str):
    """what str(value) returns in count mode.  As text (log messages) it is the placeholder '<v>'.  When the code under
    analysis compares or hashes it (e.g. uses str(value) as a dictionary key) the REAL __str__ is run on the proxy
    value with only the final `format % numbers` step kept symbolic, and two strings are equal exactly when they were
    produced by the same format from equal numbers (the display format is injective in its arguments: C14's laws)."""
    def __new__(cls, value):
        o = str.__new__(cls, '<v>')
        o.value = value
        o._key = None
        return o

    def key(self):
        if self._key is None:
            v = self.value
            cls = type(v)
            orig = ORIG_STR[cls]
            mod = sys.modules[cls.__module__]
            attr = '_dfmt' if cls.__name__ == 'Rational' else '_%s__dfmt' % cls.__name__
            fmt = getattr(cls, attr)
            had_str = 'str' in mod.__dict__
            setattr(cls, attr, FmtProxy(fmt))
            mod.str = _sym_str
            try:
                r = orig(v)
            finally:
                setattr(cls, attr, fmt)
                if not had_str:
                    del mod.str
            if not isinstance(r, KeyStr):
                raise core.HarnessError('str(value) compared, but the real __str__ did not go through the display format: %r' % (r,))
            self._key = r.key
        return self._key

    def __hash__(self):
        return 0x5EED

    def __eq__(self, other):
        if not isinstance(other, LazyStr):
            if isinstance(other, str):
                raise core.HarnessError('str(value) compared with a concrete string: digits are not modelled in count mode')
            return NotImplemented
        a, b = self.key(), other.key()
        if len(a) != len(b) or a[0] != b[0]:
            return False            # '-' + text against text, or different formats: different texts
        for x, y in zip(a[1:], b[1:]):
            if isinstance(x, str) or isinstance(y, str):
                if x != y:
                    return False
                continue
            if not (x == y):
                return False
        return True

    def __ne__(self, other):
        r = self.__eq__(other)
        return r if r is NotImplemented else not r

    def _nocmp(self, other):
        raise core.HarnessError('str(value) ordered against another string: not modelled in count mode')
    __lt__ = __le__ = __gt__ = __ge__ = _nocmp


def install_str_placeholder():
    "count mode: formatting is not the subject; log messages embed values through %s"
    import droop.values.fixed as fm
    import droop.values.guarded as gm
    import droop.values.rational as rm
    for cls in (fm.Fixed, gm.Guarded, rm.Rational):
        ORIG_STR.setdefault(cls, cls.__dict__['__str__'])

    def placeholder(self):
        return LazyStr(self)
    fm.Fixed.__str__ = placeholder
    gm.Guarded.__str__ = placeholder
    rm.Rational.__str__ = placeholder
    _note('__str__ of Fixed/Guarded/Rational -> placeholder text (count mode only); if the code compares or hashes such a '
          'string the real __str__ is run symbolically and equality is decided on the numbers it prints')


MARKERS = {}


def install_str_markers():
    "C14/C18: __str__ returns a unique marker per value object, __repr__ a different one"
    import droop.values.fixed as fm
    import droop.values.guarded as gm
    import droop.values.rational as rm
    reg = MARKERS
    for cls in (fm.Fixed, gm.Guarded, rm.Rational):
        ORIG_STR.setdefault(cls, cls.__dict__['__str__'])

    def s(self):
        k = '<S%d>' % len(reg)
        reg[k] = self
        return k

    def r(self):
        k = '<R%d>' % len(reg)
        reg[k] = self
        return k
    for cls in (fm.Fixed, gm.Guarded, rm.Rational):
        cls.__str__ = s
        cls.__repr__ = r
    _note('__str__/__repr__ of value classes -> unique markers (rendering checks)')
    return reg


def silence_prog():
    from droop.election import Election
    Election.prog = staticmethod(lambda msg: None)
    _note('Election.prog -> no-op (console progress dots)')


def summarize_ballot_vote():
    "replace the `multiplier == 1` fast path of Election.Ballot.vote by weight * multiplier (lemma-guarded)"
    from droop.election import Election
    orig = Election.Ballot.__dict__['vote']
    Election.Ballot._symex_orig_vote = orig
    Election.Ballot.vote = property(lambda self: self.weight * self.multiplier)
    _note('Election.Ballot.vote summarised as weight*multiplier (fast path multiplier==1 proven equal by lemma)')
    return orig


def _divisors(c):
    c = abs(c)
    return [d for d in range(c, 0, -1) if c % d == 0]


def sym_gcd(*args):
    "exact gcd on proxies: gcd(sym, c) forks over the divisors of c, largest first"
    if not any(isinstance(a, SymInt) for a in args):
        return _real_math.gcd(*args)
    if len(args) != 2:
        raise core.HarnessError('gcd arity')
    a, b = args
    if isinstance(a, SymInt) and isinstance(b, SymInt):
        bv = core.ENGINE.realize(b.e)
        b = bv
    if isinstance(b, SymInt):
        a, b = b, a
    if not isinstance(a, SymInt):
        return _real_math.gcd(a, b)
    if b == 0:
        return abs(a)
    for d in _divisors(b):
        if d == 1:
            return 1
        if core.ENGINE.branch(z3.simplify(a.e % d == 0)):
            return d
    return 1


def install_fraction_shims():
    import fractions
    try:
        numbers.Integral.register(SymInt)
    except Exception:
        pass
    shim = types.ModuleType('math_shim')
    shim.__dict__.update(_real_math.__dict__)
    shim.gcd = sym_gcd
    fractions.math = shim
    fractions.isinstance = sym_isinstance
    fractions.int = sym_int
    _note('math.gcd as seen by fractions -> exact symbolic gcd (forks over divisors); int/isinstance shadowed in fractions')
    import droop.values.rational as rm
    rm.isinstance = sym_isinstance
    rm.type = core.make_sym_type(int)
    # a module-level `gcd` / `math` binding in droop.values.rational sees the same exact symbolic gcd
    if getattr(rm, 'gcd', None) is _real_math.gcd:
        rm.gcd = sym_gcd
    if getattr(rm, 'math', None) is _real_math:
        rm.math = shim


def install_misc_shims():
    "two places where the real code needs a real bool / a formatted number"
    import droop.values.guarded as gm
    from droop.candidate import Candidate
    orig_report = gm.Guarded.__dict__['report'].__func__

    def report(cls):
        if isinstance(cls.maxDiff, SymInt) or isinstance(cls.minDiff, SymInt):
            return '<guarded statistics>'
        return orig_report(cls)
    gm.Guarded.report = classmethod(report)
    _note('Guarded.report() -> placeholder text when its statistics are symbolic (f-string formatting)')
    orig_elect = Candidate.elect

    def elect(self, msg=None, pending=False):
        return orig_elect(self, msg, bool(pending))
    Candidate.elect = elect
    _note('Candidate.elect: pending flag forced to a real bool (cfer passes the result of a comparison)')


def install_guarded_summary():
    """Guarded.__cmp__ keeps comparison statistics (maxDiff / minDiff) in class attributes; the two `if`s that update
    them fork every comparison four ways on facts nothing else depends on.  The summary performs the same updates as
    z3 if-then-else terms and then decides the result exactly as the original does.  Checked against the real
    __cmp__ by harness.lemmas.guarded_cmp_lemma at the start of every job that uses it."""
    import droop.values.guarded as gm
    G = gm.Guarded
    if getattr(G, '_symex_orig_cmp', None) is not None:
        return
    orig = G.__dict__['__cmp__']
    G._symex_orig_cmp = orig

    def stats_only(a, b):
        geps = G._Guarded__geps
        gd = abs(a - b)
        for st in (G.maxDiff, G.minDiff, geps):
            if not isinstance(st, (int, SymInt)):
                st < 0      # a foreign object (C20's poison): let it speak for itself
        if isinstance(gd, int) and not isinstance(G.maxDiff, SymInt) and not isinstance(G.minDiff, SymInt):
            if geps > gd > G.maxDiff:
                G.maxDiff = gd
            if geps <= gd < G.minDiff:
                G.minDiff = gd
            return gd
        gde, mx, mn = core.lz(gd), core.lz(G.maxDiff), core.lz(G.minDiff)
        G.maxDiff = core.mk(z3.simplify(z3.If(z3.And(gde < geps, gde > mx), gde, mx)))
        G.minDiff = core.mk(z3.simplify(z3.If(z3.And(gde >= geps, gde < mn), gde, mn)))
        return gd
    G._symex_stats_only = staticmethod(stats_only)

    def __cmp__(self, other):
        a, b = self._value, other._value
        gd = stats_only(a, b)
        if gd < G._Guarded__geps:
            return 0
        if a > b:
            return 1
        return -1
    G.__cmp__ = __cmp__
    _note('Guarded.__cmp__: statistics updates (maxDiff/minDiff) merged as if-then-else terms instead of forking; result decided as in the original (lemma-checked)')


def summarize_ballot_vote_guarded_aware():
    "Ballot.vote summary that keeps the statistics side effect of the `multiplier == 1` comparison under guarded arithmetic"
    from droop.election import Election
    import droop.values.guarded as gm
    if getattr(Election.Ballot, '_symex_orig_vote', None) is None:
        Election.Ballot._symex_orig_vote = Election.Ballot.__dict__['vote']

    def vote(self):
        if type(self.multiplier) is gm.Guarded and hasattr(gm.Guarded, '_symex_stats_only'):
            gm.Guarded._symex_stats_only(self.multiplier._value, self.E.V1._value)
        return self.weight * self.multiplier
    Election.Ballot.vote = property(vote)
    _note('Election.Ballot.vote summarised as weight*multiplier, keeping the statistics side effect of the fast-path comparison (lemma-checked)')


def install_count_shims(markers=False, summary=True):
    import_droop()
    install_int_shims()
    install_misc_shims()
    install_fraction_shims()
    silence_prog()
    reg = None
    if markers:
        reg = install_str_markers()
    else:
        install_str_placeholder()
    install_guarded_summary()
    if summary:
        summarize_ballot_vote_guarded_aware()
    return reg
