"""SYMEX core: replay-based depth-first symbolic execution of real Python code over z3 integers.

The code under test runs unmodified on proxy objects (SymInt / SymBool).  Every `if` on a symbolic value
becomes a solver query (Engine.branch); the search re-executes the harness body once per feasible path,
replaying the decisions recorded in the trail (DART / CrossHair style).  See /verif/DESIGN.md section 3.1.
"""
import os
import time
import z3

ENGINE = None


class PathAbort(BaseException):
    "base of the engine's path-steering exceptions (BaseException so that `except Exception` in droop cannot eat them)"


class PathLimit(PathAbort):
    "a path exceeded the branch cap (counted as truncated)"


class Unknown(PathAbort):
    "the solver answered unknown / timed out (run is inconclusive)"


class Budget(PathAbort):
    "wall-clock budget of the exploration exhausted (run is inconclusive)"


class HarnessError(Exception):
    "the harness or a proxy is wrong (never a property violation)"


# ---------------------------------------------------------------------------------------------------
# lifting helpers

def lift(x):
    "python int / bool / SymInt -> z3 Int expression (None if not integer-like)"
    if isinstance(x, SymInt):
        return x.e
    if isinstance(x, bool):
        return z3.IntVal(int(x))
    if isinstance(x, int):
        return z3.IntVal(x)
    return None


def lz(x):
    "like lift, but passes z3 expressions through and raises on anything else"
    if isinstance(x, z3.ExprRef):
        return x
    e = lift(x)
    if e is None:
        raise HarnessError('cannot lift %r' % (x,))
    return e


def liftb(x):
    if isinstance(x, SymBool):
        return x.e
    if isinstance(x, z3.BoolRef):
        return x
    return z3.BoolVal(bool(x))


def mk(e):
    if z3.is_int_value(e):
        return e.as_long()
    r = SymInt(e)
    if not r.lin:
        return r.c
    return r


def mkb(e):
    e = z3.simplify(e)
    if z3.is_true(e):
        return True
    if z3.is_false(e):
        return False
    return SymBool(e)


class SymBool:
    __slots__ = ('e',)

    def __init__(self, e):
        self.e = e

    def __bool__(self):
        return ENGINE.branch(self.e)

    def __eq__(self, o):
        if isinstance(o, (SymBool, bool)):
            return mkb(self.e == liftb(o))
        if isinstance(o, int):      # python: True == 1
            return mkb(z3.If(self.e, 1, 0) == o)
        return NotImplemented

    def __ne__(self, o):
        r = self.__eq__(o)
        if r is NotImplemented:
            return r
        return mkb(z3.Not(liftb(r)))

    def __and__(self, o):
        return mkb(z3.And(self.e, liftb(o)))
    __rand__ = __and__

    def __or__(self, o):
        return mkb(z3.Or(self.e, liftb(o)))
    __ror__ = __or__

    def __invert__(self):
        raise HarnessError('~ on SymBool')

    __hash__ = None

    def __repr__(self):
        return 'SymBool(%s)' % self.e


_ATOMS = {}        # atom id -> (z3 expr, is_derived)   (kept alive: ids stay stable across replays)


def _atom(e):
    "register z3 int expr e as an opaque atom; returns its key"
    k = e.get_id()
    if k not in _ATOMS:
        _ATOMS[k] = (e, e.decl().kind() != z3.Z3_OP_UNINTERPRETED)
    return k


def _decompose(e, mult, lin, const):
    "accumulate mult * e into (lin, const); handles +, -, unary -, numeral * x; anything else is an atom"
    if z3.is_int_value(e):
        return const + mult * e.as_long()
    k = e.decl().kind()
    if k == z3.Z3_OP_ADD:
        for ch in e.children():
            const = _decompose(ch, mult, lin, const)
        return const
    if k == z3.Z3_OP_SUB and e.num_args() == 2:
        const = _decompose(e.arg(0), mult, lin, const)
        return _decompose(e.arg(1), -mult, lin, const)
    if k == z3.Z3_OP_UMINUS:
        return _decompose(e.arg(0), -mult, lin, const)
    if k == z3.Z3_OP_MUL and e.num_args() == 2:
        if z3.is_int_value(e.arg(0)):
            return _decompose(e.arg(1), mult * e.arg(0).as_long(), lin, const)
        if z3.is_int_value(e.arg(1)):
            return _decompose(e.arg(0), mult * e.arg(1).as_long(), lin, const)
    key = _atom(e)
    c = lin.get(key, 0) + mult
    if c:
        lin[key] = c
    else:
        lin.pop(key, None)
    return const


_CTX = z3.main_ctx()
_CREF = _CTX.ref()
_INTSORT = z3.IntSort()
_IVALS = {}


def ival(v):
    "cached z3 numeral"
    r = _IVALS.get(v)
    if r is None:
        r = z3.IntVal(v)
        if len(_IVALS) < 200000:
            _IVALS[v] = r
    return r


def _build(lin, const):
    "z3 expression of a linear form, through the low-level API (z3py's Sum/* spend most of their time coercing)"
    terms = []      # ArithRef wrappers keep the intermediate ASTs referenced until the sum exists
    for k, c in lin.items():
        a = _ATOMS[k][0]
        if c == 1:
            terms.append(a)
        else:
            arr = (z3.Ast * 2)(ival(c).as_ast(), a.as_ast())
            terms.append(z3.ArithRef(z3.Z3_mk_mul(_CREF, 2, arr), _CTX))
    if const or not terms:
        terms.append(ival(const))
    if len(terms) == 1:
        return terms[0]
    arr = (z3.Ast * len(terms))(*[t.as_ast() for t in terms])
    return z3.ArithRef(z3.Z3_mk_add(_CREF, len(terms), arr), _CTX)


def eval_lin(x, model, cache):
    "value of a SymInt under a model, computed from its linear form (atom values cached per model)"
    tot = x.c
    for k, c in x.lin.items():
        v = cache.get(k)
        if v is None:
            v = model.eval(_ATOMS[k][0], model_completion=True).as_long()
            cache[k] = v
        tot += c * v
    return tot


def _mklin(lin, const):
    if not lin:
        return const
    r = SymInt.__new__(SymInt)
    r.lin = lin
    r.c = const
    r._e = None
    return r


class SymInt:
    """proxy for a python int.  The value is kept as a linear form  sum(coef * atom) + c  over opaque z3 atoms
    (variables, quotients, ...); the z3 expression .e is only built when a branch or a query needs it."""
    __slots__ = ('lin', 'c', '_e')

    def __init__(self, e):
        lin = {}
        self.c = _decompose(e, 1, lin, 0)
        self.lin = lin
        self._e = None

    @property
    def e(self):
        if self._e is None:
            self._e = _build(self.lin, self.c)
        return self._e

    @property
    def numerator(self):
        return self

    @property
    def denominator(self):
        return 1

    @property
    def real(self):
        return self

    @property
    def imag(self):
        return 0

    def derived(self):
        return any(_ATOMS[k][1] for k in self.lin)

    def __index__(self):
        raise HarnessError('symbolic int reached a C-level __index__/__int__: %s' % str(self.e)[:200])

    __int__ = __index__
    __hash__ = None

    def __bool__(self):
        return ENGINE.branch(self.e != 0)

    @staticmethod
    def _parts(o):
        if isinstance(o, SymInt):
            return o.lin, o.c
        if isinstance(o, bool):
            return None, int(o)
        if isinstance(o, int):
            return None, int(o)
        return False, 0

    def __add__(self, o):
        ol, oc = self._parts(o)
        if ol is False:
            return NotImplemented
        if ol is None:
            return _mklin(self.lin, self.c + oc) if oc else self
        lin = dict(self.lin)
        for k, c in ol.items():
            n = lin.get(k, 0) + c
            if n:
                lin[k] = n
            else:
                del lin[k]
        return _mklin(lin, self.c + oc)
    __radd__ = __add__

    def __neg__(self):
        return _mklin({k: -c for k, c in self.lin.items()}, -self.c)

    def __sub__(self, o):
        ol, oc = self._parts(o)
        if ol is False:
            return NotImplemented
        if ol is None:
            return _mklin(self.lin, self.c - oc) if oc else self
        lin = dict(self.lin)
        for k, c in ol.items():
            n = lin.get(k, 0) - c
            if n:
                lin[k] = n
            else:
                del lin[k]
        return _mklin(lin, self.c - oc)

    def __rsub__(self, o):
        ol, oc = self._parts(o)
        if ol is False:
            return NotImplemented
        return (-self).__add__(o)

    def _scale(self, k):
        if k == 0:
            return 0
        if k == 1:
            return self
        return _mklin({a: c * k for a, c in self.lin.items()}, self.c * k)

    def __mul__(self, o):
        if isinstance(o, SymInt):
            if ENGINE.nia:
                return SymInt(self.e * o.e)
            # symbolic x symbolic: realise the derived operand (one containing a quotient) so that
            # the path condition stays linear
            a, b = self, o
            if a.derived() and not b.derived():
                a, b = b, a
            return a._scale(ENGINE.realize(b.e))
        if isinstance(o, int):
            return self._scale(int(o))
        return NotImplemented
    __rmul__ = __mul__

    def __pos__(self):
        return self

    def __abs__(self):
        e = self.e
        return mk(z3.If(e >= 0, e, -e))

    def __pow__(self, o, m=None):
        if m is None and isinstance(o, int) and not isinstance(o, bool) and 0 <= o <= 4:
            r = 1
            for _ in range(o):
                r = self * r
            return r
        raise HarnessError('SymInt ** %r' % (o,))

    def _divmod_int(self, bv):
        "python floor divmod of self by the int bv -> (q, r) as python int / SymInt"
        if bv == 0:
            raise ZeroDivisionError('integer division or modulo by zero')
        if self.c % bv == 0 and all(c % bv == 0 for c in self.lin.values()):
            return _mklin({k: c // bv for k, c in self.lin.items()}, self.c // bv), 0
        e = self.e
        if bv > 0:
            qe = e / z3.IntVal(bv)               # z3 Euclidean div == floor for a positive divisor
        else:
            qe = (-e) / z3.IntVal(-bv)
        qe = z3.simplify(qe)
        q = mk(qe)
        return q, self - q * bv

    @staticmethod
    def _divmod(a, b):
        "a, b: python int or SymInt (at least one SymInt)"
        if isinstance(b, SymInt):
            if ENGINE.nia:
                ae, be = lz(a), b.e
                if ENGINE.branch(be == 0):
                    raise ZeroDivisionError('integer division or modulo by zero')
                if ENGINE.branch(be > 0):
                    q = ae / be
                else:
                    q = (-ae) / (-be)
                return mk(q), mk(ae - be * q)
            b = ENGINE.realize(b.e)
            if not isinstance(a, SymInt):
                return divmod(a, b)
        return a._divmod_int(int(b))

    def __floordiv__(self, o):
        if not isinstance(o, (int, SymInt)):
            return NotImplemented
        return self._divmod(self, o)[0]

    def __rfloordiv__(self, o):
        if not isinstance(o, (int, SymInt)):
            return NotImplemented
        return self._divmod(o, self)[0]

    def __mod__(self, o):
        if not isinstance(o, (int, SymInt)):
            return NotImplemented
        return self._divmod(self, o)[1]

    def __rmod__(self, o):
        if not isinstance(o, (int, SymInt)):
            return NotImplemented
        return self._divmod(o, self)[1]

    def __divmod__(self, o):
        if not isinstance(o, (int, SymInt)):
            return NotImplemented
        return self._divmod(self, o)

    def __rdivmod__(self, o):
        if not isinstance(o, (int, SymInt)):
            return NotImplemented
        return self._divmod(o, self)

    def __truediv__(self, o):
        raise HarnessError('true division on a symbolic int (float)')
    __rtruediv__ = __truediv__

    def _cmp(self, o, op):
        ol, oc = self._parts(o)
        if ol is False:
            return NotImplemented
        d = self - o
        if not isinstance(d, SymInt):
            return op(d, 0)
        # keep the constant on the right-hand side: "sum op k"
        if d.c:
            lhs = _mklin(d.lin, 0)
            return mkb(op(lhs.e, z3.IntVal(-d.c)))
        return mkb(op(d.e, z3.IntVal(0)))

    def __eq__(self, o):
        return self._cmp(o, lambda a, b: a == b)

    def __ne__(self, o):
        return self._cmp(o, lambda a, b: a != b)

    def __lt__(self, o):
        return self._cmp(o, lambda a, b: a < b)

    def __le__(self, o):
        return self._cmp(o, lambda a, b: a <= b)

    def __gt__(self, o):
        return self._cmp(o, lambda a, b: a > b)

    def __ge__(self, o):
        return self._cmp(o, lambda a, b: a >= b)

    def __repr__(self):
        return 'SymInt(%s)' % str(self.e)[:120]

    def __str__(self):
        raise HarnessError('str() of a symbolic int')

    def __format__(self, spec):
        raise HarnessError('format() of a symbolic int')


class CInt(int):
    """a concrete int whose *explicitly called* comparison dunders accept a SymInt on the right
    (droop's Fixed writes `int(a).__lt__(int(b))`, which bypasses operator reflection)"""
    __slots__ = ()

    def __lt__(self, o):
        return o.__gt__(int(self)) if isinstance(o, SymInt) else int.__lt__(self, o)

    def __le__(self, o):
        return o.__ge__(int(self)) if isinstance(o, SymInt) else int.__le__(self, o)

    def __gt__(self, o):
        return o.__lt__(int(self)) if isinstance(o, SymInt) else int.__gt__(self, o)

    def __ge__(self, o):
        return o.__le__(int(self)) if isinstance(o, SymInt) else int.__ge__(self, o)

    def __eq__(self, o):
        return o.__eq__(int(self)) if isinstance(o, SymInt) else int.__eq__(self, o)

    def __ne__(self, o):
        return o.__ne__(int(self)) if isinstance(o, SymInt) else int.__ne__(self, o)

    __hash__ = int.__hash__


def sym_int(x=0, *a):
    "replacement for the builtin `int` inside shimmed droop modules"
    if isinstance(x, SymInt):
        return x
    if hasattr(x, '__symex_int__'):
        return x.__symex_int__(*a)
    r = int(x, *a)
    return CInt(r) if type(x) is int or type(x) is CInt else r


_real_isinstance = isinstance


def sym_isinstance(obj, cls):
    "replacement for the builtin `isinstance` inside shimmed modules: a SymInt is an int"
    if cls is sym_int:
        cls = int
    elif _real_isinstance(cls, tuple):
        cls = tuple(int if c is sym_int else c for c in cls)
    if _real_isinstance(obj, SymInt):
        if cls is int or (_real_isinstance(cls, tuple) and int in cls):
            return True
    if hasattr(obj, '__symex_isinstance__'):
        r = obj.__symex_isinstance__(cls)
        if r is not None:
            return r
    return _real_isinstance(obj, cls)


_real_type = type


def make_sym_type(int_obj=int):
    """replacement for the builtin one-argument `type` inside shimmed modules: the type of a proxy is the
    module's `int` (which may itself be shadowed), so `type(x) is int` dispatches as it does on real ints"""
    def sym_type(*args):
        if len(args) == 1:
            if _real_isinstance(args[0], SymInt) or _real_type(args[0]) in (int, CInt):
                return int_obj
            return _real_type(args[0])
        return _real_type(*args)
    return sym_type


_DIVKINDS = (z3.Z3_OP_IDIV, z3.Z3_OP_MOD, z3.Z3_OP_DIV, z3.Z3_OP_REM)


def _derived(e):
    "does e contain a quotient / remainder term?"
    seen = set()
    stack = [e]
    while stack:
        x = stack.pop()
        i = x.get_id()
        if i in seen:
            continue
        seen.add(i)
        if x.decl().kind() in _DIVKINDS:
            return True
        stack.extend(x.children())
    return False


def _terms(e):
    "split an int expr (sum of monomials) into [(coef, monomial or None)]"
    e = z3.simplify(e, som=True)
    parts = e.children() if z3.is_add(e) else [e]
    out = []
    for p in parts:
        if z3.is_int_value(p):
            out.append((p.as_long(), None))
        elif z3.is_mul(p) and z3.is_int_value(p.arg(0)):
            ch = p.children()[1:]
            mono = ch[0] if len(ch) == 1 else z3.Product(*ch)
            out.append((p.arg(0).as_long(), mono))
        else:
            out.append((1, p))
    return out


def exact_div(e, d):
    "e/d as an expression if every coefficient of e is divisible by the int d, else None"
    if d in (1, -1):
        return e if d == 1 else -e
    ts = _terms(e)
    if all(c % d == 0 for c, _ in ts):
        acc = []
        for c, mono in ts:
            k = c // d
            acc.append(z3.IntVal(k) if mono is None else (mono if k == 1 else z3.IntVal(k) * mono))
        return acc[0] if len(acc) == 1 else z3.Sum(*acc)
    return None


# ---------------------------------------------------------------------------------------------------

class Engine:
    """replay DFS.  Trail entries: [choice, other_side_pending, rlog_len, cond_hash]"""

    def __init__(self, timeout_ms=20000, max_branches=200000, nia=False, model_cache=True):
        self.timeout_ms = timeout_ms
        self.max_branches = max_branches
        self.nia = nia
        self.model_cache = model_cache
        self.trail = []
        self.rlog = []
        self.pos = 0
        self.rpos = 0
        self.solver = None
        self.known = {}
        self.realized = {}
        self.keep = []
        self.models = []
        self.deadline = None
        self.stats = dict(paths=0, queries=0, sat=0, unsat=0, unknown=0, solver_s=0.0, branches=0,
                          decisions=0, cache_hits=0, model_hits=0, realize=0, truncated=0)

    # -- solver access ---------------------------------------------------------------------------
    def check(self, *extra):
        "is path-condition /\\ extra satisfiable?  raises Unknown on unknown"
        if self.deadline is not None and time.time() > self.deadline:
            raise Budget()
        t = time.time()
        r = self.solver.check(*extra)
        dt = time.time() - t
        if dt > 5 and os.environ.get('SYMEX_DUMP_SLOW') and not getattr(self, '_dumped', 0) > 3:
            self._dumped = getattr(self, '_dumped', 0) + 1
            with open('%s.%d.smt2' % (os.environ['SYMEX_DUMP_SLOW'], self._dumped), 'w') as f:
                f.write(self.solver.to_smt2().replace('(check-sat)', ''))
                for x in extra:
                    f.write('(assert %s)\n' % x.sexpr())
                f.write('(check-sat)\n; took %.1fs result %s\n' % (dt, r))
        dd = os.environ.get('SYMEX_DUMP_DIR')
        if dd and r != z3.unknown and self.stats['queries'] % int(os.environ.get('SYMEX_DUMP_EVERY', '50')) == 0:
            # cross-check material: the query as SMT-LIB2 with the answer this solver gave (tools/crosscheck.py re-asks /usr/bin/z3 and cvc5)
            with open(os.path.join(dd, 'q%d_%06d.smt2' % (os.getpid(), self.stats['queries'])), 'w') as f:
                f.write('; expected: %s\n(set-logic ALL)\n' % r)
                f.write(self.solver.to_smt2().replace('(check-sat)', ''))
                for x in extra:
                    f.write('(assert %s)\n' % x.sexpr())
                f.write('(check-sat)\n')
        self.stats['queries'] += 1
        self.stats['solver_s'] += dt
        if r == z3.sat:
            self.stats['sat'] += 1
            if self.model_cache:
                self.models.append(self.solver.model())
                if len(self.models) > 6:
                    del self.models[0]
            return True
        if r == z3.unsat:
            self.stats['unsat'] += 1
            return False
        self.stats['unknown'] += 1
        raise Unknown(self.solver.reason_unknown())

    def model(self):
        "a model of the current path condition"
        if not self.check():
            raise HarnessError('infeasible path condition')
        return self.solver.model()

    def _model_says(self, cond):
        "look for cached models of the path condition that decide cond: returns (some_true, some_false)"
        st = sf = False
        for m in reversed(self.models):
            v = m.eval(cond, model_completion=True)
            if z3.is_true(v):
                st = True
            elif z3.is_false(v):
                sf = True
            if st and sf:
                break
        return st, sf

    def _assert(self, c):
        self.solver.add(c)
        if self.models:
            self.models = [m for m in self.models if z3.is_true(m.eval(c, model_completion=True))]

    # -- branching ------------------------------------------------------------------------------
    def branch(self, cond):
        cond = z3.simplify(cond)
        if z3.is_true(cond):
            return True
        if z3.is_false(cond):
            return False
        self.stats['branches'] += 1
        cid = cond.get_id()
        if cid in self.known:
            self.stats['cache_hits'] += 1
            return self.known[cid]
        h = cond        # the AST itself: keeping it alive keeps hash-consing (and z3's argument ordering) stable across replays
        if self.pos < len(self.trail):
            ent = self.trail[self.pos]
            choice = ent[0]
            if not ent[3].eq(cond):
                # structurally different: accept only if provably equivalent (z3 may order arguments differently)
                s = z3.Solver()
                s.set('timeout', 5000)
                s.add(ent[3] != cond)
                if s.check() != z3.unsat:
                    raise HarnessError('replay divergence at decision %d: %s  vs  %s' % (self.pos, str(ent[3])[:200], str(cond)[:200]))
                cond = ent[3]
                cid = cond.get_id()
        else:
            if self.pos >= self.max_branches:
                raise PathLimit()
            t_ok, f_ok = self._model_says(cond) if self.model_cache else (False, False)
            if t_ok or f_ok:
                self.stats['model_hits'] += 1
            if not t_ok and not f_ok:
                t_ok = self.check(cond)
                if not t_ok:
                    f_ok = True         # the path condition itself is satisfiable (invariant)
                else:
                    f_ok = self.check(z3.Not(cond))
            elif not t_ok:
                t_ok = self.check(cond)
            elif not f_ok:
                f_ok = self.check(z3.Not(cond))
            if t_ok and f_ok:
                choice = True
                self.trail.append([True, True, self.rpos, h])
            elif t_ok:
                choice = True
                self.trail.append([True, False, self.rpos, h])
            elif f_ok:
                choice = False
                self.trail.append([False, False, self.rpos, h])
            else:
                raise HarnessError('infeasible path reached')
            self.stats['decisions'] += 1
        self.pos += 1
        self._assert(cond if choice else z3.Not(cond))
        self.known[cid] = choice
        self.keep.append(cond)
        return choice

    def assume(self, cond):
        "add a constraint to the current path (it must be re-added identically on every replay)"
        self._assert(cond)

    def realize(self, e):
        "enumerate the feasible values of int expr e, one per path"
        e = z3.simplify(e) if isinstance(e, z3.ExprRef) else lz(e)
        if z3.is_int_value(e):
            return e.as_long()
        eid = e.get_id()
        if eid in self.realized:
            return self.realized[eid]
        self.keep.append(e)
        self.stats['realize'] += 1
        while True:
            if self.rpos < len(self.rlog):
                val = self.rlog[self.rpos]
            else:
                val = None
                for m in reversed(self.models):
                    v = m.eval(e, model_completion=True)
                    if z3.is_int_value(v):
                        val = v.as_long()
                        break
                if val is None:
                    val = self.model().eval(e, model_completion=True).as_long()
                self.rlog.append(val)
            self.rpos += 1
            if self.branch(e == val):
                self.realized[eid] = val
                return val

    # -- search ---------------------------------------------------------------------------------
    def explore(self, body, pre=None, deadline=None, max_paths=None, on_path=None):
        """run body(engine) once per feasible path.  returns dict(status counts).
        status per path: ok | limit | unknown ; exploration status: complete | budget | maxpaths"""
        global ENGINE
        ENGINE = self
        self.deadline = deadline
        counts = {}
        first = True
        outcome = 'complete'
        while first or self.trail:
            first = False
            if max_paths is not None and self.stats['paths'] >= max_paths:
                outcome = 'maxpaths'
                break
            self.solver = z3.Solver()
            self.solver.set('timeout', self.timeout_ms)
            self.pos = 0
            self.rpos = 0
            self.known = {}
            self.realized = {}
            self.keep = []
            self.models = []
            status = 'ok'
            try:
                if pre is not None:
                    pre(self)
                body(self)
            except PathLimit:
                status = 'limit'
                self.stats['truncated'] += 1
            except Unknown:
                status = 'unknown'
            except Budget:
                outcome = 'budget'
                if on_path is not None:
                    on_path('budget')        # the path that was running when the budget ran out (C01 replays it concretely)
                break
            self.stats['paths'] += 1
            counts[status] = counts.get(status, 0) + 1
            if on_path is not None:
                on_path(status)
            # backtrack
            del self.trail[self.pos:]
            while self.trail and not self.trail[-1][1]:
                self.trail.pop()
            if self.trail:
                t = self.trail[-1]
                self.trail[-1] = [not t[0], False, t[2], t[3]]
                del self.rlog[t[2]:]
        self.outcome = outcome
        self.path_status = counts
        return outcome


def install(engine):
    global ENGINE
    ENGINE = engine
